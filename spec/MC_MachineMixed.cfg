SPECIFICATION Spec
CONSTANTS
  MaxSteps = 30
  MaxEvents = 3
  Buttons = {0, 1, 4}
INVARIANT PendingLaw
INVARIANT TimeLaw
INVARIANT SampledLaw
INVARIANT HaltLaw
INVARIANT StackLaw
INVARIANT HandlerLaw
INVARIANT PcLaw
CHECK_DEADLOCK FALSE
