--------------------------- MODULE Trace_CodeCache ---------------------------
(***************************************************************************)
(* impl -> spec for C03: validates cache-level events projected from       *)
(* recorded jit runs against the CodeCache model.  Records:                *)
(*   reset               a new history (fresh core and cache)              *)
(*   cold                the cache was replaced by an empty one            *)
(*   switch b            the guest wrote bank b (as mapped afterwards)     *)
(*   run a, ranbank      run_code_block at address a executed code that    *)
(*                       identifies itself as coming from bank ranbank     *)
(*                       (0 for the fixed bank)                            *)
(* Transparent must hold after every event.                                *)
(***************************************************************************)
EXTENDS CodeCache, IOUtils, Json, Sequences

Recs == ndJsonDeserialize(IOEnv.TRACE)
VARIABLE l
IsEvent(e) == l <= Len(Recs) /\ Recs[l].ev = e /\ l' = l + 1

TInit == Init /\ l = 1
Reset == IsEvent("reset") /\ bank' = 1 /\ tag' = 1 /\ cache' = {} /\ cursor' = 0
         /\ ran' = <<"none", 0, 0>> /\ want' = <<"none", 0, 0>> /\ failed' = FALSE
Cold == IsEvent("cold") /\ cache' = {} /\ cursor' = 0 /\ UNCHANGED <<bank, tag, ran, want, failed>>
Switch == IsEvent("switch") /\ WriteBank(Recs[l].b)
RunE == IsEvent("run") /\ Run(Recs[l].a)
        /\ ran' = <<"block", Recs[l].ranbank, Recs[l].a>>      \* what the code executed ...
        /\ ran' = want'                                         \* ... is what is mapped there now
TNext == Reset \/ Cold \/ Switch \/ RunE
TraceSpec == TInit /\ [][TNext]_<<vars, l>>

Matched == TLCGet("stats").diameter - 1
TraceAccepted ==
  IF Matched = Len(Recs) THEN PrintT(<<"TRACE_OK", Len(Recs)>>)
  ELSE /\ PrintT(<<"TRACE_REJECTED", Matched + 1, ToJson(Recs[Matched + 1])>>)
       /\ FALSE
=============================================================================
