-------------------------------- MODULE Bits --------------------------------
(***************************************************************************)
(* Fixed-width arithmetic helpers used by every other module.  All values  *)
(* are naturals; an 8-bit quantity is in 0..255, a 16-bit one in 0..65535. *)
(***************************************************************************)
EXTENDS Integers, Bitwise

Byte == 0..255
Word == 0..65535

Pow2(n) == 2^n
Bit(x, n)  == (x \div Pow2(n)) % 2
Lo(w)      == w % 256
Hi(w)      == (w \div 256) % 256
W8(x)      == x % 256          \* TLA+ % is the mathematical modulus: result in 0..255 for negative x too
W16(x)     == x % 65536
Mk16(h, l) == h * 256 + l
Sx8(b)     == IF b >= 128 THEN b - 256 ELSE b
Nib(x)     == x % 16
B2N(p)     == IF p THEN 1 ELSE 0
SetBit(x, n)   == IF Bit(x, n) = 1 THEN x ELSE x + Pow2(n)
ClearBit(x, n) == IF Bit(x, n) = 1 THEN x - Pow2(n) ELSE x

\* lowest set bit index of a non-zero 5-bit value
LowestBit(v) == CHOOSE i \in 0..7 : Bit(v, i) = 1 /\ \A j \in 0..(i-1) : Bit(v, j) = 0

Min(a, b) == IF a < b THEN a ELSE b
Max(a, b) == IF a > b THEN a ELSE b
=============================================================================
