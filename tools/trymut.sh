#!/bin/sh
# usage: tools/trymut.sh <file-under-/repo> <python-re-pattern> <replacement> <check id>...
# Applies a one-off textual change to /repo, runs the given checks, reverts.
f="$1"; pat="$2"; rep="$3"; shift 3
cd /repo || exit 2
git diff --quiet || { echo "repo dirty"; exit 2; }
python3 - "$f" "$pat" "$rep" <<'PY'
import re,sys
f,pat,rep=sys.argv[1:4]
s=open(f).read()
n=len(re.findall(pat,s,flags=re.S))
if n!=1: print("pattern matches %d times"%n); sys.exit(3)
open(f,'w').write(re.sub(pat,rep,s,count=1,flags=re.S))
PY
[ $? -eq 0 ] || { git checkout -- .; exit 2; }
git diff --stat | tail -1
if [ -n "$RUN_TESTS" ]; then cargo test --offline 2>&1 | grep "test result"; fi
cd /verif
for c in "$@"; do ./check $c 2>&1 | tail -4; echo "rc($c)=$?"; done
git -C /repo checkout -- .
