------------------------------ MODULE MC_Serial ------------------------------
(***************************************************************************)
(* Model checking of C18: over all sequences of writes to SB and SC (and   *)
(* of unrelated machine activity), the output stream is exactly the        *)
(* sequence of SB values at the qualifying SC writes, in program order.    *)
(* `log' is the history of writes; Projection(log) recomputes the expected *)
(* stream from it independently of the step-by-step definition.            *)
(***************************************************************************)
EXTENDS Serial, TLC

CONSTANTS Vals, MaxSteps
VARIABLES sp, out, log
vars == <<sp, out, log>>

Init == sp = PowerOn /\ out = << >> /\ log = << >>
DoSB == \E v \in Vals : LET r == WriteSB(sp, v) IN sp' = r.sp /\ out' = out \o r.out /\ log' = Append(log, <<"sb", v>>)
DoSC == \E v \in Vals : LET r == WriteSC(sp, v) IN sp' = r.sp /\ out' = out \o r.out /\ log' = Append(log, <<"sc", v>>)
\* anything else the machine does (other registers, memory, interrupts, translation) leaves the stream alone
Other == UNCHANGED <<sp, out>> /\ log' = Append(log, <<"other", 0>>)
Next == Len(log) < MaxSteps /\ (DoSB \/ DoSC \/ Other)
Spec == Init /\ [][Next]_vars

\* the stream recomputed from the history: for each qualifying SC write, the last value written to SB before it
RECURSIVE LastSB(_, _)
LastSB(h, i) == IF i = 0 THEN 0 ELSE IF h[i][1] = "sb" THEN h[i][2] ELSE LastSB(h, i - 1)
RECURSIVE Proj(_, _)
Proj(h, i) == IF i > Len(h) THEN << >>
              ELSE IF h[i][1] = "sc" /\ Bit(h[i][2], 7) = 1 THEN <<LastSB(h, i - 1)>> \o Proj(h, i + 1)
              ELSE Proj(h, i + 1)
OutputIsProjection == out = Proj(log, 1)
OnlyQualifyingWritesEmit == [][Len(out') > Len(out) => (Len(out') = Len(out) + 1 /\ log'[Len(log')][1] = "sc" /\ Bit(log'[Len(log')][2], 7) = 1)]_vars
=============================================================================
