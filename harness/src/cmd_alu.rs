//! C05 / C01(a): sweep of the complete data-operation tables exported by TLC
//! (Gen_Alu.tla) through the interpreter (`interpreter::run_next_op`) and, in
//! pair mode, through both engines on the same one-instruction block.
//! Every opcode family covers its whole operand domain; registers that the
//! instruction does not write are randomised and must be preserved.
use crate::cache::CodeCache;
use crate::emulator::Core;
use crate::interpreter;
use crate::mem;
use crate::util::*;
use crate::world::*;
use serde_json::{json, Value};
use std::panic::{catch_unwind, AssertUnwindSafe};

const PC: u32 = 0x0150;
const HLADDR: u32 = 0xc123;

pub struct Tables {
  bin: Vec<u16>,   // [fn][a][b][c]
  inc: Vec<u16>, dec: Vec<u16>,        // [a][c]
  rot: Vec<u16>, rota: Vec<u16>, bit: Vec<u16>,   // [k][a][c]
  res: Vec<u8>, set: Vec<u8>,          // [n][a]
  daa: Vec<u16>, cpl: Vec<u16>, scf: Vec<u16>, ccf: Vec<u16>,  // [a][f16]
  add8: Vec<u16>,  // [a][b][c] -> r*4 + 2H + C
  maskf: Vec<u8>,
}

fn flat(v: &Value, out: &mut Vec<u64>) {
  match v { Value::Array(a) => for x in a { flat(x, out); }, _ => out.push(ju(v)) }
}
fn flat16(v: &Value) -> Vec<u16> { let mut o = Vec::new(); flat(v, &mut o); o.iter().map(|x| *x as u16).collect() }
fn flat8(v: &Value) -> Vec<u8> { let mut o = Vec::new(); flat(v, &mut o); o.iter().map(|x| *x as u8).collect() }

impl Tables {
  pub fn load(path: &str) -> Tables {
    let v: Value = serde_json::from_str(&std::fs::read_to_string(path).unwrap()).unwrap();
    let t = Tables { bin: flat16(&v["bin"]), inc: flat16(&v["inc"]), dec: flat16(&v["dec"]), rot: flat16(&v["rot"]),
      rota: flat16(&v["rota"]), bit: flat16(&v["bit"]), res: flat8(&v["res"]), set: flat8(&v["set"]),
      daa: flat16(&v["daa"]), cpl: flat16(&v["cpl"]), scf: flat16(&v["scf"]), ccf: flat16(&v["ccf"]),
      add8: flat16(&v["add8"]), maskf: flat8(&v["maskf"]) };
    assert_eq!(t.bin.len(), 8 * 256 * 256 * 2); assert_eq!(t.add8.len(), 256 * 256 * 2); assert_eq!(t.daa.len(), 256 * 16);
    t
  }
  fn bin(&self, f: usize, a: usize, b: usize, c: usize) -> u16 { self.bin[((f * 256 + a) * 256 + b) * 2 + c] }
  fn add8(&self, a: usize, b: usize, c: usize) -> (u8, u8, u8) { let x = self.add8[(a * 256 + b) * 2 + c]; ((x >> 2) as u8, (x >> 1 & 1) as u8, (x & 1) as u8) }
}

#[derive(Clone, Copy, PartialEq, Eq, Debug)]
pub struct St { pub r: [u8; 8], pub sp: u32, pub pc: u32 }   // r: B C D E H L F A  (index 6 = F)

impl St {
  fn load(&self, g: &mut crate::cpu::Registers) {
    g.af = (self.r[7] as u32) << 8 | self.r[6] as u32; g.bc = (self.r[0] as u32) << 8 | self.r[1] as u32;
    g.de = (self.r[2] as u32) << 8 | self.r[3] as u32; g.hl = (self.r[4] as u32) << 8 | self.r[5] as u32;
    g.sp = self.sp; g.ip = self.pc; g.cycles = 0;
  }
  fn to_json(&self) -> Value { json!({"b": self.r[0], "c": self.r[1], "d": self.r[2], "e": self.r[3], "h": self.r[4], "l": self.r[5], "f": self.r[6], "a": self.r[7], "sp": self.sp, "pc": self.pc}) }
}
#[derive(Clone, Copy, PartialEq, Eq, Debug)]
pub struct Raw { af: u32, bc: u32, de: u32, hl: u32, sp: u32, pc: u32, cyc: u32 }
fn raw(g: &crate::cpu::Registers) -> Raw { Raw { af: g.af, bc: g.bc, de: g.de, hl: g.hl, sp: g.sp, pc: g.ip, cyc: g.cycles } }
fn raw_of(s: &St, cyc: u32) -> Raw {
  Raw { af: (s.r[7] as u32) << 8 | s.r[6] as u32, bc: (s.r[0] as u32) << 8 | s.r[1] as u32, de: (s.r[2] as u32) << 8 | s.r[3] as u32,
        hl: (s.r[4] as u32) << 8 | s.r[5] as u32, sp: s.sp, pc: s.pc, cyc }
}
fn raw_json(r: &Raw) -> Value { json!({"af": r.af, "bc": r.bc, "de": r.de, "hl": r.hl, "sp": r.sp, "pc": r.pc, "cyc": r.cyc}) }

pub struct Sweep<'a> {
  t: &'a Tables, pair: bool, ci: Box<Core>, cj: Box<Core>, code: Vec<u8>, off: usize,
  pub evals: u64, pub pair_evals: u64, pub mism: u64, shown: u64, label: String, rng: Rng,
}

impl<'a> Sweep<'a> {
  fn new(t: &'a Tables, pair: bool) -> Sweep<'a> {
    Sweep { t, pair, ci: plain_core(), cj: plain_core(), code: vec![], off: 0, evals: 0, pair_evals: 0, mism: 0, shown: 0,
            label: String::new(), rng: Rng::new(seed_from_env() ^ 0x05) }
  }
  /// install the instruction under test (followed by HALT) and translate it once
  fn set_code(&mut self, label: &str, code: &[u8]) {
    self.label = label.to_string(); self.code = code.to_vec(); self.shown = 0;
    for c in [&mut self.ci, &mut self.cj].iter_mut() {
      for (i, b) in code.iter().enumerate() { c.memory.rom[PC as usize + i] = *b; }
      c.memory.rom[PC as usize + code.len()] = 0x76;
    }
    if self.pair {
      let (cursor, cap, _, _) = self.cj.cache.verif_snapshot();
      if cap - cursor < 0x10000 { self.cj.cache = CodeCache::new(); }
      let memp = self.cj.memory.as_ptr();
      self.off = self.cj.cache.translate_code_block(&self.cj.memory.rom, PC as usize, memp);
    }
  }
  fn report(&mut self, kind: &str, pre: &St, memv: Option<u8>, exp: Value, obs: Value) {
    self.mism += 1;
    if self.shown < 3 {
      self.shown += 1;
      println!("{}", json!({"kind": kind, "label": self.label, "code": self.code, "pre": pre.to_json(), "mem": memv, "exp": exp, "obs": obs}));
    }
  }
  /// one state: `pre` registers, optional byte behind HLADDR (or the stack word), expected post state,
  /// cycles and bus writes; checks the interpreter against the expectation and, in pair mode, jit against interpreter
  fn case(&mut self, pre: &St, pokes: &[(u16, u8)], exp: &St, cyc: u32, wr: &[(u16, u8)]) {
    self.evals += 1;
    for (a, v) in pokes { poke(&mut self.ci, *a, *v); }
    pre.load(&mut self.ci.registers);
    let p = mem_ptr(&mut self.ci);
    unsafe { mem::verif::LEN = 0; mem::verif::ENABLED = true; }
    let r = catch_unwind(AssertUnwindSafe(|| interpreter::run_next_op(&mut self.ci.registers, p)));
    unsafe { mem::verif::ENABLED = false; }
    let obs = raw(&self.ci.registers);
    let want = raw_of(exp, cyc);
    let wr_ok = writes_match(wr);
    let ok = match r { Ok(Some((st, _))) => st == 0, _ => false };
    if !ok || obs != want || !wr_ok {
      let o = json!({"regs": raw_json(&obs), "returned": ok, "wr": current_writes()});
      self.report("spec-interp", pre, pokes.get(0).map(|x| x.1), json!({"regs": raw_json(&want), "wr": wr.iter().map(|w| json!([w.0, w.1])).collect::<Vec<_>>()}), o);
    }
    if self.pair {
      self.pair_evals += 1;
      for (a, v) in pokes { poke(&mut self.ci, *a, *v); poke(&mut self.cj, *a, *v); }
      pre.load(&mut self.ci.registers); pre.load(&mut self.cj.registers);
      unsafe { mem::verif::LEN = 0; mem::verif::ENABLED = true; }
      let ri = catch_unwind(AssertUnwindSafe(|| interpreter::run_code_block(&mut self.ci.registers, p)));
      unsafe { mem::verif::ENABLED = false; }
      let wi = current_writes();
      let oi = raw(&self.ci.registers);
      unsafe { mem::verif::LEN = 0; mem::verif::ENABLED = true; }
      let off = self.off;
      let rj = catch_unwind(AssertUnwindSafe(|| self.cj.cache.call(off, &mut self.cj.registers)));
      unsafe { mem::verif::ENABLED = false; }
      let wj = current_writes();
      let oj = raw(&self.cj.registers);
      let si = ri.map(|x| x as i32).unwrap_or(-1); let sj = rj.map(|x| x as i32).unwrap_or(-1);
      let mut bad = oi != oj || si != sj || wi != wj;
      if !bad && !pokes.is_empty() {
        for (a, _) in pokes { if peek(&mut self.ci, *a) != peek(&mut self.cj, *a) { bad = true; } }
      }
      if bad {
        let cyc_only = si == sj && wi == wj && Raw { cyc: 0, ..oi } == Raw { cyc: 0, ..oj };
        self.report(if cyc_only { "pair-cycles" } else { "pair" }, pre, pokes.get(0).map(|x| x.1),
          json!({"engine": "interp", "regs": raw_json(&oi), "st": si, "wr": wi}), json!({"engine": "jit", "regs": raw_json(&oj), "st": sj, "wr": wj}));
      }
    }
  }
  /// random values for the registers an instruction does not touch
  fn noise(&mut self, s: &mut St, keep: &[usize]) {
    let x = self.rng.next();
    for i in 0..8 { if i != 6 && !keep.contains(&i) { s.r[i] = (x >> (8 * i)) as u8; } }
  }
}

fn writes_match(exp: &[(u16, u8)]) -> bool {
  unsafe {
    let mut k = 0usize;
    for i in 0..mem::verif::LEN {
      let e = mem::verif::LOG[i];
      if e >> 24 == 1 {
        if k >= exp.len() || exp[k] != (((e >> 8) & 0xffff) as u16, (e & 0xff) as u8) { return false; }
        k += 1;
      }
    }
    k == exp.len()
  }
}
fn current_writes() -> Vec<(u16, u8)> {
  unsafe { (0..mem::verif::LEN).map(|i| mem::verif::LOG[i]).filter(|e| e >> 24 == 1).map(|e| (((e >> 8) & 0xffff) as u16, (e & 0xff) as u8)).collect() }
}

// r8 encoding order B C D E H L (HL) A -> index into St.r (6 is the memory operand)
fn ridx(z: usize) -> usize { if z == 7 { 7 } else { z } }
fn base_state() -> St { St { r: [0x11, 0x22, 0x33, 0x44, (HLADDR >> 8) as u8, HLADDR as u8, 0, 0], sp: 0xdff0, pc: PC } }

pub fn run(args: &[String]) {
  let t = Tables::load(&arg_value(args, "--tables").expect("--tables"));
  let pair = args.iter().any(|a| a == "--pair");
  let shard = arg_usize(args, "--shard", 0); let shards = arg_usize(args, "--shards", 1);
  let deep = args.iter().any(|a| a == "--deep");
  silence_panics();
  let mut sw = Sweep::new(&t, pair);
  let mut unit = 0usize;
  let mut mine = |u: &mut usize| -> bool { let m = *u % shards == shard; *u += 1; m };
  let f16: Vec<u8> = (0..16).map(|i| (i * 16) as u8).collect();

  // ---- 8-bit binary operations: register, (HL) and immediate operands, whole (A, operand, F) domain
  for fnn in 0..8usize {
    for z in 0..8usize {
      if !mine(&mut unit) { continue; }
      let op = 0x80 + 8 * fnn + z;
      sw.set_code(&format!("alu{}-r{}", fnn, z), &[op as u8]);
      for a in 0..256usize { for b in 0..256usize {
        if z == 7 && a != b { continue; }
        for f in f16.iter() {
          let mut pre = base_state();
          if z != 6 { sw.noise(&mut pre, &[7, ridx(z)]); if z != 4 && z != 5 { pre.r[4] = 0xc1; pre.r[5] = 0x23; } }
          pre.r[7] = a as u8; pre.r[6] = *f;
          let mut pokes: Vec<(u16, u8)> = vec![];
          if z == 6 { pokes.push((HLADDR as u16, b as u8)); } else if z != 7 { pre.r[ridx(z)] = b as u8; }
          if z == 4 || z == 5 { /* operand lives in H or L: no memory involved */ }
          let x = t.bin(fnn, a, b, (*f as usize >> 4) & 1);
          let mut exp = pre; exp.r[7] = (x >> 8) as u8; exp.r[6] = x as u8; exp.pc = PC + 1;
          sw.case(&pre, &pokes, &exp, if z == 6 { 2 } else { 1 }, &[]);
        }
      } }
    }
    if mine(&mut unit) {
      for b in 0..256usize {
        sw.set_code(&format!("alu{}-imm", fnn), &[(0xc6 + 8 * fnn) as u8, b as u8]);
        for a in 0..256usize { for f in f16.iter() {
          let mut pre = base_state(); sw.noise(&mut pre, &[7]); pre.r[7] = a as u8; pre.r[6] = *f;
          let x = t.bin(fnn, a, b, (*f as usize >> 4) & 1);
          let mut exp = pre; exp.r[7] = (x >> 8) as u8; exp.r[6] = x as u8; exp.pc = PC + 2;
          sw.case(&pre, &[], &exp, 2, &[]);
        } }
      }
    }
  }
  // ---- INC / DEC r and (HL)
  for y in 0..8usize { for dec in 0..2usize {
    if !mine(&mut unit) { continue; }
    sw.set_code(&format!("{}-r{}", if dec == 1 { "dec" } else { "inc" }, y), &[(0x04 + 8 * y + dec) as u8]);
    for a in 0..256usize { for f in f16.iter() {
      let mut pre = base_state();
      if y != 6 { sw.noise(&mut pre, &[ridx(y)]); pre.r[ridx(y)] = a as u8; }
      pre.r[6] = *f;
      let x = if dec == 1 { t.dec[a * 2 + ((*f as usize >> 4) & 1)] } else { t.inc[a * 2 + ((*f as usize >> 4) & 1)] };
      // Z N H from the table; C preserved (the table carries it in its flag byte)
      let mut exp = pre; exp.r[6] = x as u8; exp.pc = PC + 1;
      if y == 6 {
        let hl = (pre.r[4] as u16) << 8 | pre.r[5] as u16;
        sw.case(&pre, &[(hl, a as u8)], &exp, 3, &[(hl, (x >> 8) as u8)]);
      } else { exp.r[ridx(y)] = (x >> 8) as u8; sw.case(&pre, &[], &exp, 1, &[]); }
    } }
  } }
  // ---- accumulator / flag instructions 0x07 .. 0x3F
  for y in 0..8usize {
    if !mine(&mut unit) { continue; }
    sw.set_code(&format!("acc{}", y), &[(0x07 + 8 * y) as u8]);
    for a in 0..256usize { for (fi, f) in f16.iter().enumerate() {
      let mut pre = base_state(); sw.noise(&mut pre, &[7]); pre.r[7] = a as u8; pre.r[6] = *f;
      let c = (*f as usize >> 4) & 1;
      let x = match y { 0..=3 => t.rota[(y * 256 + a) * 2 + c], 4 => t.daa[a * 16 + fi], 5 => t.cpl[a * 16 + fi], 6 => t.scf[a * 16 + fi], _ => t.ccf[a * 16 + fi] };
      let mut exp = pre; exp.r[7] = (x >> 8) as u8; exp.r[6] = x as u8; exp.pc = PC + 1;
      sw.case(&pre, &[], &exp, 1, &[]);
    } }
  }
  // ---- CB-prefixed: rotates/shifts, BIT, RES, SET on every register and (HL)
  for cb in 0..256usize {
    if !mine(&mut unit) { continue; }
    let (kind, y, z) = (cb >> 6, (cb >> 3) & 7, cb & 7);
    sw.set_code(&format!("cb{:02x}", cb), &[0xcb, cb as u8]);
    for a in 0..256usize { for f in f16.iter() {
      let mut pre = base_state();
      if z != 6 { sw.noise(&mut pre, &[ridx(z)]); pre.r[ridx(z)] = a as u8; }
      pre.r[6] = *f;
      let c = (*f as usize >> 4) & 1;
      let (res, fl) = match kind {
        0 => { let x = t.rot[(y * 256 + a) * 2 + c]; ((x >> 8) as u8, x as u8) },
        1 => { let x = t.bit[(y * 256 + a) * 2 + c]; (a as u8, x as u8) },
        2 => (t.res[y * 256 + a], *f),
        _ => (t.set[y * 256 + a], *f),
      };
      let mut exp = pre; exp.r[6] = fl; exp.pc = PC + 2;
      if z == 6 {
        let hl = (pre.r[4] as u16) << 8 | pre.r[5] as u16;
        if kind == 1 { sw.case(&pre, &[(hl, a as u8)], &exp, 3, &[]); }
        else { sw.case(&pre, &[(hl, a as u8)], &exp, 4, &[(hl, res)]); }
      } else { exp.r[ridx(z)] = res; sw.case(&pre, &[], &exp, 2, &[]); }
    } }
  }
  // ---- LD r,r' / LD r,(HL) / LD (HL),r / LD r,n
  for op in 0x40..0x80usize {
    if op == 0x76 || !mine(&mut unit) { continue; }
    let (y, z) = ((op >> 3) & 7, op & 7);
    sw.set_code(&format!("ld{:02x}", op), &[op as u8]);
    for v in 0..256usize { for f in [0u8, 0xf0].iter() {
      let mut pre = base_state(); pre.r[6] = *f;
      if y != 6 && z != 6 { sw.noise(&mut pre, &[]); }
      let hl = (pre.r[4] as u16) << 8 | pre.r[5] as u16;
      let mut pokes = vec![];
      let val = if z == 6 { pokes.push((hl, v as u8)); v as u8 } else { if !((y == 6) && (z == 4 || z == 5)) { pre.r[ridx(z)] = v as u8; } pre.r[ridx(z)] };
      let hl = (pre.r[4] as u16) << 8 | pre.r[5] as u16;
      if z == 6 { pokes[0].0 = hl; }
      let mut exp = pre; exp.pc = PC + 1;
      if y == 6 { pokes.push((hl, !val)); sw.case(&pre, &pokes, &exp, 2, &[(hl, val)]); }
      else { exp.r[ridx(y)] = val; sw.case(&pre, &pokes, &exp, if z == 6 { 2 } else { 1 }, &[]); }
    } }
  }
  // ---- 16-bit INC / DEC: all 65536 values, flags untouched
  for p in 0..4usize { for dec in 0..2usize {
    if !mine(&mut unit) { continue; }
    sw.set_code(&format!("{}16-{}", if dec == 1 { "dec" } else { "inc" }, p), &[(0x03 + 16 * p + 8 * dec) as u8]);
    for w in 0..65536u32 { for f in [0u8, 0xf0].iter() {
      let mut pre = base_state(); sw.noise(&mut pre, &[]); pre.r[6] = *f;
      let nw = if dec == 1 { w.wrapping_sub(1) & 0xffff } else { (w + 1) & 0xffff };
      let mut exp;
      if p == 3 { pre.sp = w; exp = pre; exp.sp = nw; } else { pre.r[2 * p] = (w >> 8) as u8; pre.r[2 * p + 1] = w as u8; exp = pre; exp.r[2 * p] = (nw >> 8) as u8; exp.r[2 * p + 1] = nw as u8; }
      exp.pc = PC + 1;
      sw.case(&pre, &[], &exp, 2, &[]);
    } }
  } }
  // ---- ADD HL,rr: all low-byte pairs x carry-relevant high-byte classes (byte-wise ADD then ADC)
  // thorough: every fifth high byte plus the carry-relevant edges (61 x 61 x all low-byte pairs); all 2^32 pairs would
  // take hours and add nothing the byte-wise composition theorem does not already give
  let highs: Vec<u32> = if deep { let mut v: Vec<u32> = (0..256).step_by(5).collect(); v.extend_from_slice(&[0x01, 0x0f, 0x10, 0x7f, 0x80, 0xef, 0xf0, 0xfe, 0xff]); v.sort(); v.dedup(); v }
                        else { vec![0x00, 0x01, 0x0f, 0x10, 0x7f, 0x80, 0xef, 0xf0, 0xff] };
  for p in 0..4usize {
    if !mine(&mut unit) { continue; }
    sw.set_code(&format!("addhl-{}", p), &[(0x09 + 16 * p) as u8]);
    for hh in highs.iter() { for rh in highs.iter() { for hlw in 0..256u32 { for rl in 0..256u32 {
      if p == 2 && (hh != rh || hlw != rl) { continue; }
      for f in [0u8, 0xf0].iter() {
        let mut pre = base_state(); sw.noise(&mut pre, &[]); pre.r[6] = *f;
        pre.r[4] = *hh as u8; pre.r[5] = hlw as u8;
        match p { 0 => { pre.r[0] = *rh as u8; pre.r[1] = rl as u8; }, 1 => { pre.r[2] = *rh as u8; pre.r[3] = rl as u8; }, 3 => { pre.sp = rh << 8 | rl; }, _ => {} }
        let (lo, _, c0) = t.add8(hlw as usize, rl as usize, 0);
        let (hi, h1, c1) = t.add8(*hh as usize, *rh as usize, c0 as usize);
        let mut exp = pre; exp.r[4] = hi; exp.r[5] = lo; exp.r[6] = (f & 0x80) | h1 << 5 | c1 << 4; exp.pc = PC + 1;
        sw.case(&pre, &[], &exp, 2, &[]);
      }
    } } } }
  }
  // ---- ADD SP,e and LD HL,SP+e: all 65536 x 256
  for which in 0..2usize {
    for e in 0..256u32 {
      if !mine(&mut unit) { continue; }
      sw.set_code(if which == 0 { "addsp" } else { "ldhlsp" }, &[if which == 0 { 0xe8 } else { 0xf8 }, e as u8]);
      let step = if deep { 1 } else { 1 };
      let mut spv = 0u32;
      while spv < 65536 {
        let f = if spv & 1 == 0 { 0xf0u8 } else { 0x00 };
        let mut pre = base_state(); sw.noise(&mut pre, &[]); pre.r[6] = f; pre.sp = spv;
        let (lo, h, c) = t.add8((spv & 0xff) as usize, e as usize, 0);
        let hi = ((spv >> 8) + c as u32 + if e >= 128 { 0xff } else { 0 }) & 0xff;
        let res = hi << 8 | lo as u32;
        let mut exp = pre; exp.r[6] = h << 5 | c << 4; exp.pc = PC + 2;
        if which == 0 { exp.sp = res; sw.case(&pre, &[], &exp, 4, &[]); } else { exp.r[4] = (res >> 8) as u8; exp.r[5] = res as u8; sw.case(&pre, &[], &exp, 3, &[]); }
        spv += step;
      }
    }
  }
  // ---- POP AF masks the low nibble of F: all 65536 stack words; PUSH/POP round trip
  if mine(&mut unit) {
    sw.set_code("popaf", &[0xf1]);
    for w in 0..65536u32 {
      let mut pre = base_state(); sw.noise(&mut pre, &[]); pre.sp = 0xc200;
      let mut exp = pre; exp.r[7] = (w >> 8) as u8; exp.r[6] = t.maskf[(w & 0xff) as usize]; exp.sp = 0xc202; exp.pc = PC + 1;
      sw.case(&pre, &[(0xc200, w as u8), (0xc201, (w >> 8) as u8)], &exp, 3, &[]);
    }
  }
  println!("{}", json!({"kind": "summary", "shard": shard, "evals": sw.evals, "pair_evals": sw.pair_evals, "mismatches": sw.mism, "units": unit}));
}
