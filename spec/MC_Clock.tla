------------------------------ MODULE MC_Clock ------------------------------
(***************************************************************************)
(* Model checking of C09: conservation over all interleavings of running   *)
(* steps, halted steps and dispatches, and termination of "step to the     *)
(* next frame" on an LCD scaled to Lines lines of LineLen clocks of which   *)
(* the last VLines are vertical blanking.                                  *)
(***************************************************************************)
EXTENDS Clock, TLC

CONSTANTS MaxC, Lines, VLines, LineLen, MaxTotal
VARIABLES k, run, phase, elapsed, biggest
vars == <<k, run, phase, elapsed, biggest>>
FrameLen == Lines * LineLen
\* Assumption of the frame-stepping clause: no single step is longer than the vertical blanking
\* period.  (TLC shows the clause false without it: a step longer than VBlank can jump over it,
\* and "two frame periods plus one block" no longer bounds the search for the next VBlank.)
ASSUME 4 * (MaxC + 5) < VLines * LineLen
Pos == k.dev["lcd"] % FrameLen
InVBlank(pos) == pos >= (Lines - VLines) * LineLen

\* phase of run_frame: "seek" (until VBlank starts), "blank" (until it ends), "done"
Init == k = Zero /\ run \in {"Run", "Halt"} /\ phase = "seek" /\ elapsed = 0 /\ biggest = 0
Account(k2) ==
  LET dt == k2.dev["lcd"] - k.dev["lcd"]
      pos2 == k2.dev["lcd"] % FrameLen
  IN /\ elapsed' = elapsed + dt
     /\ biggest' = IF dt > biggest THEN dt ELSE biggest
     /\ phase' = CASE phase = "seek" /\ InVBlank(pos2) -> "blank"
                   [] phase = "seek" -> "seek"
                   [] phase = "blank" /\ ~InVBlank(pos2) -> "done"
                   [] OTHER -> phase
Step == /\ phase # "done" /\ run = "Run" /\ k.cpu < MaxTotal
        /\ \E c \in 1..MaxC, disp \in BOOLEAN, halt \in BOOLEAN :
             /\ k' = RunStep(k, c, disp) /\ Account(RunStep(k, c, disp))
             /\ run' = IF halt /\ ~disp THEN "Halt" ELSE "Run"
Halted == /\ phase # "done" /\ run = "Halt" /\ k.cpu < MaxTotal
          /\ \E disp \in BOOLEAN, wake \in BOOLEAN :
               /\ k' = HaltStep(k, disp) /\ Account(HaltStep(k, disp))
               /\ run' = IF disp \/ wake THEN "Run" ELSE "Halt"
Next == Step \/ Halted
Spec == Init /\ [][Next]_vars /\ WF_vars(Next)

ConservedInv == Conserved(k)
\* every step advances every device by at least one machine cycle
Advances == [][\A d \in Devices : k'.dev[d] >= k.dev[d] + 4]_vars
\* stepping to the next frame ends within two frame periods plus the largest single step
FrameBound == elapsed <= 2 * FrameLen + biggest
Terminates == <>(phase = "done")
=============================================================================
