------------------------------ MODULE Gen_Instr ------------------------------
(***************************************************************************)
(* spec -> impl generator for the instruction-level properties (C05, C06,  *)
(* and the per-instruction families of C01/C02).                           *)
(*                                                                         *)
(* Evaluated by TLC as a constant expression (ASSUME): for every defined   *)
(* opcode it builds pre-states over a boundary lattice of pointer values,  *)
(* flag states and immediates, runs SM83!Exec over the Bus model and       *)
(* writes one NDJSON record per case:                                      *)
(*   {id, op, cb, len, be, s, mem, exp: {s, st, cyc, wr, rb}}              *)
(* `mem' lists <<address, stored byte>> to be placed before the step, `wr' *)
(* the ordered bus writes, `rb' what every footprint address must read     *)
(* back as afterwards.                                                     *)
(*                                                                         *)
(* Environment: OUT (file), FLAGS ("4" or "16"), SHARD / SHARDS, EXTRA     *)
(* (number of additional random lattice passes).                           *)
(***************************************************************************)
EXTENDS SM83, Bus, TLC, IOUtils, Json, SequencesExt, FiniteSets

Env(name, default) == IF name \in DOMAIN IOEnv THEN IOEnv[name] ELSE default
OutFile == Env("OUT", "/tmp/gen_instr.ndjson")
NFlags  == atoi(Env("FLAGS", "4"))
Shard   == atoi(Env("SHARD", "0"))
Shards  == atoi(Env("SHARDS", "1"))
Passes  == 1 + atoi(Env("EXTRA", "0"))

\* cartridge of the instruction-level harness: 32 KiB ROM, no controller, 8 KiB RAM
Cart0 == [romBank |-> 1, ramBank |-> 0, romBanks |-> 2, ramBytes |-> 8192]

\* I/O addresses the plain bus model does not cover (device registers)
Forbidden(a) == a >= 65280 /\ a < 65408 /\ a # 65295
ByteSafe(p) == ~Forbidden(p)
WordSafe(p) == \A k \in {-2, -1, 0, 1} : ~Forbidden(W16(p + k))

Boundaries == <<0, 1, 2, 16383, 16384, 32767, 32768, 40959, 40960, 49151, 49152, 53247,
                53248, 57343, 57344, 65023, 65024, 65183, 65184, 65279, 65295, 65408,
                65409, 65410, 65533, 65534, 65535, 49153, 53000, 65450>>
ByteLattice == SelectSeq(Boundaries, ByteSafe)
WordLattice == SelectSeq(Boundaries, WordSafe)
PcLattice   == <<256, 0, 16368, 16384, 32752, 49152, 53240, 53248, 57330, 65408, 65520, 336>>
HighOK      == <<15, 128, 129, 200, 254, 255>>       \* n with 0xFF00+n outside the device registers
ByteVals    == <<0, 1, 15, 16, 127, 128, 240, 254, 255>>
FlagVals    == IF NFlags >= 16 THEN [i \in 1..16 |-> 16 * (i - 1)] ELSE <<0, 16, 128, 240, 32, 64, 176, 80>>

At(seq, i) == seq[(i % Len(seq)) + 1]
\* deterministic pseudo-random byte from (case id, salt); all products stay below 2^31
Rnd(id, salt) == ((((id % 7919) * 31 + (salt % 1000)) * 8191 + (id \div 7919) * 2503) % 65521) % 256

BaseOps == SetToSortSeq(((0..255) \ Undefined) \ {203}, LAMBDA u, v : u < v)   \* 244 unprefixed defined opcodes

UsesImm16Addr(op) == op \in {8, 234, 250}
UsesHighImm(op)   == op \in {224, 240}
UsesHighC(op)     == op \in {226, 242}

\* one case: opcode op (second byte cb when op = 0xCB, else -1), lattice index j, flag index fi
MkCaseX(id, op, cb, j, fi, pcO, b1O) ==
  LET hl == At(ByteLattice, j)
      bc0 == At(ByteLattice, j + 5)
      de == At(ByteLattice, j + 11)
      sp == At(WordLattice, j)
      pc == IF pcO >= 0 THEN pcO ELSE At(PcLattice, j)
      cReg == IF UsesHighC(op) THEN At(HighOK, j) ELSE Lo(bc0)
      nAddr == At(WordLattice, j + 3)
      b1 == IF b1O >= 0 THEN b1O ELSE IF op = 203 THEN cb
            ELSE IF UsesImm16Addr(op) THEN Lo(nAddr)
            ELSE IF UsesHighImm(op) THEN At(HighOK, j)
            ELSE IF j % 3 = 0 THEN At(ByteVals, j) ELSE Rnd(id, 1)
      b2 == IF UsesImm16Addr(op) THEN Hi(nAddr) ELSE IF j % 3 = 1 THEN At(ByteVals, j + 2) ELSE Rnd(id, 2)
      s == [a |-> IF j % 2 = 0 THEN At(ByteVals, j + fi) ELSE Rnd(id, 3), f |-> At(FlagVals, fi),
            b |-> Hi(bc0), c |-> cReg, d |-> Hi(de), e |-> Lo(de),
            h |-> Hi(hl), l |-> Lo(hl), sp |-> sp, pc |-> pc]
      dataAddrs == {hl, Mk16(Hi(bc0), cReg), de, nAddr, W16(nAddr + 1), 65280 + cReg, 65280 + b1,
                    W16(sp - 2), W16(sp - 1), sp, W16(sp + 1)}
      codeAddrs == {pc, W16(pc + 1), W16(pc + 2)}
      okData == {a \in dataAddrs : ~Forbidden(a) /\ Cell(Cart0, a)[1] # "none"}
      cells == {Cell(Cart0, a) : a \in okData \cup codeAddrs}
      codeVal(c) == CASE c = Cell(Cart0, pc) -> op
                      [] c = Cell(Cart0, W16(pc + 1)) -> b1
                      [] c = Cell(Cart0, W16(pc + 2)) -> b2
      store == [c \in cells |->
                  IF c \in {Cell(Cart0, a) : a \in codeAddrs} THEN codeVal(c)
                  ELSE IF c[1] \in {"ie", "io"} THEN Rnd(id, 7) % 32 ELSE Rnd(id, 11 + c[2])]
      RD(a) == BusRead(Cart0, store, a)
      out == Exec(s, RD)
      store2 == BusWriteAll(Cart0, store, out.wr)
      addrs == SetToSortSeq(okData \cup codeAddrs, LAMBDA u, v : u < v)
  IN [id |-> id, op |-> op, cb |-> cb, len |-> ILen(op), be |-> IsBlockEnd(op), s |-> s,
      mem |-> [k \in 1..Len(addrs) |-> <<addrs[k], store[Cell(Cart0, addrs[k])]>>],
      exp |-> [s |-> out.s, st |-> out.st, cyc |-> out.cyc, wr |-> out.wr,
               rb |-> [k \in 1..Len(addrs) |-> <<addrs[k], BusRead(Cart0, store2, addrs[k])>>]]]

MkCase(id, op, cb, j, fi) == MkCaseX(id, op, cb, j, fi, -1, -1)

\* enumeration: 245 base opcodes (0xCB excluded from base, it is expanded to 256 CB forms)
OpList == [i \in 1..500 |-> IF i <= 244
                            THEN <<BaseOps[i], -1>>
                            ELSE <<203, i - 245>>]

PerOp == Len(ByteLattice) * Passes
NF == Len(FlagVals)
Total == 500 * PerOp * NF

CaseAt(k) ==   \* k in 0..Total-1
  LET oi == k \div (PerOp * NF)
      r == k % (PerOp * NF)
      j == r \div NF
      fi == r % NF
  IN MkCase(k, OpList[oi + 1][1], OpList[oi + 1][2], j, fi)

\* ---- family "jr": every displacement of every relative jump from program counters at both ends of
\* the address space and of each executable region (16-bit wrap-around of the target)
Family == Env("FAMILY", "lattice")
JrOps == <<24, 32, 40, 48, 56>>
JrPcs == <<0, 2, 16368, 16384, 32752, 49152, 57328, 65408, 65520>>
JrTotal == 5 * 256 * 9 * 4
JrAt(k) == LET oi == k % 5  r1 == k \div 5  disp == r1 % 256  r2 == r1 \div 256  pi == r2 % 9  fi == r2 \div 9
           IN MkCaseX(1000000 + k, JrOps[oi + 1], -1, k, fi, JrPcs[pi + 1], disp)

N == IF Family = "jr" THEN JrTotal ELSE Total
Gen(k) == IF Family = "jr" THEN JrAt(k) ELSE CaseAt(k)
\* shard k takes the cases Shard, Shard + Shards, ... (index arithmetic: nothing is re-evaluated per case)
Count == IF N > Shard THEN ((N - 1 - Shard) \div Shards) + 1 ELSE 0

ASSUME PrintT(<<"GEN_INSTR", Family, "total", N, "mine", Count, "out", OutFile>>)
ASSUME ndJsonSerialize(OutFile, [i \in 1..Count |-> Gen(Shard + (i - 1) * Shards)])
=============================================================================
