------------------------------- MODULE MC_Dma -------------------------------
(***************************************************************************)
(* Behaviour specification of OAM DMA for model checking (C16), with the   *)
(* transfer length scaled to DLen and abstract byte values: interleavings   *)
(* of Start(page), Advance(k), ModifySource, and a per-cycle shadow        *)
(* machine (`fine') that always advances one machine cycle at a time.      *)
(***************************************************************************)
EXTENDS Dma, TLC

CONSTANTS DLen, Pages, Vals, Batches, MaxSteps
VARIABLES d, oam, mem, fd, foam, since, log, steps
\* mem[page][i]: source memory; since: machine cycles since the last start;
\* log: the value each OAM cell received from the running transfer (history)
vars == <<d, oam, mem, fd, foam, since, log, steps>>
Idx == 0..(DLen - 1)

Init == /\ d = Idle /\ fd = Idle /\ since = 0 /\ steps = 0
        /\ oam = [i \in Idx |-> 0] /\ foam = oam /\ log = [i \in Idx |-> -1]
        /\ mem \in [Pages -> [Idx -> {0}]]

RECURSIVE FineRun(_, _, _, _)
FineRun(dd, oo, src, k) == IF k = 0 THEN [d |-> dd, oam |-> oo]
                           ELSE LET r == Run(dd, oo, src, 1, DLen) IN FineRun(r.d, r.oam, src, k - 1)

Bound == steps < MaxSteps /\ steps' = steps + 1
DoStart == Bound /\ \E p \in Pages : d' = Start(p) /\ fd' = Start(p) /\ since' = 0 /\ log' = [i \in Idx |-> -1]
           /\ UNCHANGED <<oam, foam, mem>>
DoAdvance == Bound /\ \E k \in Batches :
   LET src == IF d.active THEN mem[d.page] ELSE [i \in Idx |-> 0]
       r == Run(d, oam, src, k, DLen)
       f == FineRun(fd, foam, src, k)
   IN /\ d' = r.d /\ oam' = r.oam /\ fd' = f.d /\ foam' = f.oam
      /\ since' = IF d.active THEN since + k ELSE since
      /\ log' = [i \in Idx |-> IF d.active /\ i >= d.off /\ i < d.off + Count(d, k, DLen) THEN src[i] ELSE log[i]]
      /\ UNCHANGED mem
DoModify == Bound /\ \E p \in Pages, i \in Idx, v \in Vals :
              mem' = [mem EXCEPT ![p][i] = v] /\ UNCHANGED <<d, oam, fd, foam, since, log>>
Next == DoStart \/ DoAdvance \/ DoModify
Spec == Init /\ [][Next]_vars

\* batched = per-cycle, whatever the batching
BatchingIndependent == d = fd /\ oam = foam
\* progress is min(since, DLen); the transfer is over after DLen machine cycles
Progress == /\ d.active => d.off = since /\ since < DLen
            /\ (~d.active) => d.off = 0
\* cells below the progress mark hold the byte copied from the source, in ascending order; the rest is untouched
PrefixCopied == \A i \in Idx : (log[i] # -1) => oam[i] = log[i]
Ascending == \A i, j \in Idx : (i < j /\ log[j] # -1 /\ d.active) => log[i] # -1
=============================================================================
