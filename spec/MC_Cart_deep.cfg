SPECIFICATION Spec
CONSTANTS
  Types = {0, 1, 2, 3, 17, 18, 19}
  RomCodes = {0, 1, 2, 4, 6, 8, 82, 84}
  RamCodes = {0, 1, 2, 3, 4, 5}
  Addrs = {0, 8191, 8192, 16383, 16384, 24575, 24576, 32767}
  Vals = {0, 1, 2, 3, 4, 10, 31, 32, 33, 63, 64, 96, 127, 128, 255}
INVARIANT TypeOK
INVARIANT InBounds
INVARIANT Bank0Fixed
INVARIANT RomOnlyInert
INVARIANT Masking
INVARIANT ModeSelect
PROPERTY Windows
CHECK_DEADLOCK FALSE
