--------------------------------- MODULE Irq ---------------------------------
(***************************************************************************)
(* Interrupt dispatch (C07).                                               *)
(*                                                                         *)
(* c = [pc, sp : 0..65535, ime : {"Enabled","Disabled","EnableNext"},      *)
(*      run : {"Run","Halt","Stop"}, iflag, ie : 0..31]                    *)
(* Dispatch(c) is what happens at the interrupt check that ends every      *)
(* emulator step.  The stack pushes go through the bus and may therefore   *)
(* land on IE (0xFFFF) or IF (0xFF0F); the pending set is sampled before   *)
(* the pushes (wake-up, master-enable test) and again after the high-byte  *)
(* push (vector selection or cancellation).                                *)
(* Result: [c |-> c', wr |-> ordered bus writes, cyc |-> machine cycles]   *)
(***************************************************************************)
EXTENDS Bits, Sequences

IF_ADDR == 65295
IE_ADDR == 65535
Pending(c) == c.iflag & c.ie
Vector(b) == 64 + 8 * b            \* 0x40 VBlank, 0x48 STAT, 0x50 Timer, 0x58 Serial, 0x60 Joypad

\* effect of a bus write on the two interrupt registers (other cells are the bus's business)
RegWrite(c, a, v) == IF a = IE_ADDR THEN [c EXCEPT !.ie = v % 32]
                     ELSE IF a = IF_ADDR THEN [c EXCEPT !.iflag = v % 32] ELSE c

Dispatch(c) ==
  IF Pending(c) = 0 THEN [c |-> c, wr |-> << >>, cyc |-> 0]
  ELSE LET woken == [c EXCEPT !.run = "Run"] IN
    IF c.ime # "Enabled" THEN [c |-> woken, wr |-> << >>, cyc |-> 0]
    ELSE LET a1 == W16(c.sp - 1)
             a2 == W16(c.sp - 2)
             c1 == RegWrite([woken EXCEPT !.ime = "Disabled"], a1, Hi(c.pc))
             p2 == Pending(c1)                       \* re-sampled after the high-byte push
             c2 == RegWrite(c1, a2, Lo(c.pc))
             wr == << <<a1, Hi(c.pc)>>, <<a2, Lo(c.pc)>> >>
         IN IF p2 = 0
            THEN [c |-> [c2 EXCEPT !.sp = a2, !.pc = 0], wr |-> wr, cyc |-> 5]
            ELSE LET b == LowestBit(p2)
                 IN [c |-> [c2 EXCEPT !.sp = a2, !.pc = Vector(b), !.iflag = ClearBit(c2.iflag, b)],
                     wr |-> wr, cyc |-> 5]
=============================================================================
