-------------------------------- MODULE ApaLcd --------------------------------
(***************************************************************************)
(* Typed restatement of the elapsed-time part of Lcd.tla for Apalache.      *)
(* C14: the schedule and the requests raised are "independent of how        *)
(* elapsed time is batched".  Lcd!Run(p, n) moves the position to           *)
(* (q + n) % 70224 and raises the requests of every event position e that   *)
(* is passed, Passed(q, n, e).  PassedAdditive: an event position is passed *)
(* by a + b clocks from q exactly when it is passed by a clocks from q or   *)
(* by b clocks from where those a clocks end -- for EVERY position q, event *)
(* position e and every a, b up to 2^24 clocks (Thm_Lcd enumerates a grid   *)
(* with TLC).  Since the requests of a batch are the union over the passed  *)
(* positions of a function of (e, STAT enables, LYC) only, the set of       *)
(* requests of a + b is the union of those of a and of b.                   *)
(*   apalache-mc check --init=Init --inv=PassedAdditive --length=0 ApaLcd.tla *)
(***************************************************************************)
EXTENDS Integers

VARIABLES
  \* @type: Int;
  q,
  \* @type: Int;
  e,
  \* @type: Int;
  a,
  \* @type: Int;
  b

Frame == 70224
Passed(q0, n, e0) == LET d == (e0 - q0) % Frame  dd == IF d = 0 THEN Frame ELSE d IN dd <= n
After(q0, n) == (q0 + n) % Frame

Init == q \in 0..70223 /\ e \in 0..70223 /\ a \in 0..16777216 /\ b \in 0..16777216
Next == UNCHANGED <<q, e, a, b>>

PassedAdditive ==
  /\ After(After(q, a), b) = After(q, a + b)
  /\ Passed(q, a + b, e) <=> (Passed(q, a, e) \/ Passed(After(q, a), b, e))
\* and nothing is passed twice within one frame period: a request is raised exactly once per frame
PassedOncePerFrame ==
  (a + b <= Frame) => ~(Passed(q, a, e) /\ Passed(After(q, a), b, e))
=============================================================================
