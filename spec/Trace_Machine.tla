---------------------------- MODULE Trace_Machine ----------------------------
(***************************************************************************)
(* impl -> spec: validates whole-machine traces recorded by `gbv machine'  *)
(* against Machine.tla.  Records:                                          *)
(*   init   cart, rom chunks, romfill, cpu, ime   start of a history       *)
(*   bw     a, v                                  bus write by the driver  *)
(*   br     a, v                                  bus read by the driver   *)
(*   tick   n                                     n clocks of device time  *)
(*   press / release  b                           joypad input             *)
(*   step   k in {"instr","block","halt"}         one emulator step        *)
(* every record but init carries o = the projected state afterwards; step  *)
(* records also carry wr (ordered bus writes), out (bytes on stdout) and   *)
(* clk (clocks delivered to timer, LCD, memory bus / DMA by the step).     *)
(*                                                                         *)
(* Besides conformance to Machine.tla the trace specification evaluates    *)
(* the step-level clauses of C08 and C09 on every recorded step.           *)
(***************************************************************************)
EXTENDS Machine, IOUtils, Json

Recs == ndJsonDeserialize(IOEnv.TRACE)
VARIABLES m, l

Range(f) == {f[x] : x \in DOMAIN f}
RomOf(chunks) ==
  [i \in UNION {(ch[1])..(ch[1] + Len(ch[2]) - 1) : ch \in Range(chunks)} |->
     LET ch == CHOOSE ch \in Range(chunks) : i >= ch[1] /\ i < ch[1] + Len(ch[2]) IN ch[2][i - ch[1] + 1]]
CpuOf(r) == [a |-> r.a, f |-> r.f, b |-> r.b, c |-> r.c, d |-> r.d, e |-> r.e, h |-> r.h, l |-> r.l, sp |-> r.sp, pc |-> r.pc]

InitOf(r) == [PowerOnMachine(C!NewCart(r.cart[1], r.cart[2], r.cart[3]), CpuOf(r.cpu), RomOf(r.rom), r.romfill)
              EXCEPT !.ime = r.ime]

\* the projection of the specification's state that the recorder logs
ProjOK(x, o) ==
  /\ AF(x.s) = o.af /\ BC(x.s) = o.bc /\ DE(x.s) = o.de /\ HL(x.s) = o.hl /\ x.s.sp = o.sp /\ x.s.pc = o.pc
  /\ x.pend = o.pend /\ x.ime = o.ime /\ x.run = o.run /\ x.iflag = o.iflag /\ x.ie = o.ie
  /\ x.t.div = o.div /\ x.t.tima = o.tima /\ x.t.tma = o.tma /\ x.t.tac = o.tac
  /\ x.p.q = o.q /\ x.p.lyc = o.lyc /\ x.p.en = o.en
  /\ B2N(x.d.active) = o.dact /\ (x.d.active => (x.d.page = o.dpage /\ x.d.off = o.doff))
  /\ J!P1(x.js) = o.p1 /\ B2N(x.js.pending) = o.jpend

Init == l = 2 /\ Recs[1].ev = "init" /\ m = InitOf(Recs[1])
IsEvent(e) == l <= Len(Recs) /\ Recs[l].ev = e /\ l' = l + 1

NewHistory == IsEvent("init") /\ m' = InitOf(Recs[l])
BusWrite == IsEvent("bw") /\ m' = MWrite(m, Recs[l].a, Recs[l].v).m /\ ProjOK(m', Recs[l].o)
\* a bus read by the driver: the value must be what the map shows (P1 bits 6-7 and STAT bit 7 are not constrained)
ReadMask(a) == IF a = 65280 THEN 63 ELSE IF a = 65345 THEN 127 ELSE 255
BusRead == IsEvent("br") /\ UNCHANGED m /\ (MRead(m, Recs[l].a) & ReadMask(Recs[l].a)) = (Recs[l].v & ReadMask(Recs[l].a))
\* the instruction-fetch view of an executable address shows the same byte as a data read
BusFetch == IsEvent("bf") /\ UNCHANGED m /\ Executable(Recs[l].a) /\ MRead(m, Recs[l].a) = Recs[l].v
\* devices advance without the CPU (the driver calls the catch-up entry point directly)
Tick == IsEvent("tick") /\ m' = CatchUp(m, Recs[l].n).m /\ ProjOK(m', Recs[l].o)
Press == IsEvent("press") /\ m' = PressButton(m, Recs[l].b) /\ ProjOK(m', Recs[l].o)
Release == IsEvent("release") /\ m' = ReleaseButton(m, Recs[l].b) /\ ProjOK(m', Recs[l].o)

StepOf(k) == CASE k = "instr" -> StepInstr(m) [] k = "block" -> StepBlock(m) [] k = "halt" -> HaltTick(m)
\* C09: clocks delivered to every device = 4 x machine cycles of the step, at least one machine cycle
ClockOK(r, rec) == /\ rec.clk[1] = 4 * r.cyc /\ rec.clk[2] = 4 * r.cyc /\ rec.clk[3] = 4 * r.cyc
                   /\ r.cyc >= 1
\* C08 clauses that are visible on a single recorded step (instruction stepping)
OpAt == MRead(m, m.s.pc)
ImeOK(r, rec) ==
  /\ (rec.k = "instr" /\ OpAt = 251 /\ m.ime = "Disabled") => ~r.disp        \* EI: not before the next instruction
  /\ (rec.k = "instr" /\ OpAt = 243) => (~r.disp /\ r.m.ime = "Disabled")    \* DI: at once
  /\ (rec.k = "instr" /\ r.disp) => (m.ime # "Disabled" \/ OpAt = 217)        \* never while off (RETI enables at once)
  /\ (rec.k = "halt" /\ ~r.disp) => r.m.s.pc = m.s.pc                         \* suspended CPUs execute nothing
Step == IsEvent("step") /\ (Recs[l].k = "halt" <=> m.run # "Run")
        /\ LET r == StepOf(Recs[l].k) IN
           /\ r.ok /\ m' = r.m /\ ProjOK(r.m, Recs[l].o)
           /\ r.wr = Recs[l].wr /\ r.out = Recs[l].out
           /\ ClockOK(r, Recs[l]) /\ ImeOK(r, Recs[l])

Next == NewHistory \/ BusWrite \/ BusRead \/ BusFetch \/ Tick \/ Press \/ Release \/ Step
TraceSpec == Init /\ [][Next]_<<m, l>>

Matched == TLCGet("stats").diameter
TraceAccepted ==
  IF Matched = Len(Recs) THEN PrintT(<<"TRACE_OK", Len(Recs)>>)
  ELSE /\ PrintT(<<"TRACE_REJECTED", Matched + 1, ToJson(Recs[Matched + 1])>>)
       /\ FALSE
=============================================================================
