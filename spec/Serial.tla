-------------------------------- MODULE Serial --------------------------------
(***************************************************************************)
(* The serial port as the emulator uses it (C18): SB (0xFF01) holds the    *)
(* byte to send, a write to SC (0xFF02) with bit 7 set puts the byte then  *)
(* held in SB on the host's standard output.  Nothing else ever appears    *)
(* on that stream.  Dev_NoSerialClock: no transfer timing, no completion   *)
(* interrupt, SB/SC read back as 0xFF.                                     *)
(*   sp = [sb, sc : 0..255]                                                *)
(***************************************************************************)
EXTENDS Bits, Sequences

PowerOn == [sb |-> 0, sc |-> 0]
WriteSB(sp, v) == [sp |-> [sp EXCEPT !.sb = v], out |-> << >>]
WriteSC(sp, v) == [sp |-> [sp EXCEPT !.sc = v], out |-> IF Bit(v, 7) = 1 THEN <<sp.sb>> ELSE << >>]
=============================================================================
