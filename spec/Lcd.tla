--------------------------------- MODULE Lcd ---------------------------------
(***************************************************************************)
(* The LCD controller's line/mode schedule and its interrupt requests      *)
(* (C14).  Statement form: the position is a pure function of the clocks   *)
(* elapsed, q = position within the 70224-clock frame counted from line 0: *)
(*   LY = q div 456;  x = q mod 456;                                       *)
(*   mode = 1 on lines 144..153, else 2 for x < 80, 3 for x < 268, else 0. *)
(* Requests are raised when the position passes:                           *)
(*   x = 0 of line L      LY becomes L: STAT if LYC = L and STAT bit 6;    *)
(*                        L <= 143: mode 2 entry, STAT if bit 5;           *)
(*                        L  = 144: VBlank, and STAT if bit 4;             *)
(*   x = 268, L <= 143    mode 0 entry, STAT if bit 3.                     *)
(* Time advances in multiples of 4 clocks (one machine cycle).             *)
(*                                                                         *)
(* Named deviations of the emulator from hardware, modelled as intended:   *)
(*   Dev_FixedMode3  mode 3 always lasts 188 clocks                        *)
(*   Dev_NoLcdOff    the schedule runs whatever LCDC bit 7 says            *)
(* p = [q : 0..70223, en : 0..120 (STAT bits 3-6), lyc : 0..255]           *)
(***************************************************************************)
EXTENDS Bits, FiniteSets

Frame == 70224
LineLen == 456
LY(q)   == q \div 456
XPos(q) == q % 456
Mode(q) == IF LY(q) >= 144 THEN 1 ELSE IF XPos(q) < 80 THEN 2 ELSE IF XPos(q) < 268 THEN 3 ELSE 0

PowerOn == [q |-> 144 * 456, en |-> 0, lyc |-> 0]

\* requests raised on arriving at position e (a multiple of 4)
EvAt(e, en, lyc) ==
  LET L == LY(e)  x == XPos(e) IN
  (IF x = 0 /\ lyc = L /\ Bit(en, 6) = 1 THEN {"stat"} ELSE {})
  \cup (IF x = 0 /\ L <= 143 /\ Bit(en, 5) = 1 THEN {"stat"} ELSE {})
  \cup (IF x = 0 /\ L = 144 THEN {"vblank"} ELSE {})
  \cup (IF x = 0 /\ L = 144 /\ Bit(en, 4) = 1 THEN {"stat"} ELSE {})
  \cup (IF x = 268 /\ L <= 143 /\ Bit(en, 3) = 1 THEN {"stat"} ELSE {})

EventPositions == {456 * L : L \in 0..153} \cup {456 * L + 268 : L \in 0..143}

\* is position e passed (arrived at) when advancing n > 0 clocks from q?
Passed(q, n, e) == LET d == (e - q) % Frame  dd == IF d = 0 THEN Frame ELSE d IN dd <= n

\* closed form: advance n clocks (n a multiple of 4)
\* only the lines the interval touches can contribute (all of them for n >= Frame)
Candidates(q, n) ==
  IF n >= Frame THEN EventPositions
  ELSE LET Ls == {(LY(q) + i) % 154 : i \in 0..((n \div 456) + 1)}
       IN {456 * L : L \in Ls} \cup {456 * L + 268 : L \in {L \in Ls : L <= 143}}
Run(p, n) ==
  [p   |-> [p EXCEPT !.q = (p.q + n) % Frame],
   req |-> UNION {EvAt(e, p.en, p.lyc) : e \in {e \in Candidates(p.q, n) : Passed(p.q, n, e)}}]

\* the machine-cycle state machine: one step of 4 clocks
Step4(p) == LET q1 == (p.q + 4) % Frame IN [p |-> [p EXCEPT !.q = q1], req |-> EvAt(q1, p.en, p.lyc)]

RECURSIVE IterAcc(_, _, _)
IterAcc(p, k, req) == IF k = 0 THEN [p |-> p, req |-> req]
                      ELSE LET s == Step4(p) IN IterAcc(s.p, k - 1, req \cup s.req)
Iter(p, n) == IterAcc(p, n \div 4, {})

(* registers *)
ReadLY(p)   == LY(p.q)
\* STAT bits 0-6 (bit 7 is not constrained)
ReadSTAT(p) == p.en + (IF LY(p.q) = p.lyc THEN 4 ELSE 0) + Mode(p.q)
WriteSTAT(p, v) == [p EXCEPT !.en = v - (v % 8) - 128 * Bit(v, 7)]
WriteLYC(p, v)  == [p EXCEPT !.lyc = v]
=============================================================================
