SPECIFICATION Spec
CONSTANTS
  Vals = {0, 65, 127, 128, 129, 255}
  MaxSteps = 5
INVARIANT OutputIsProjection
PROPERTY OnlyQualifyingWritesEmit
CHECK_DEADLOCK FALSE
