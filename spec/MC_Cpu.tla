------------------------------- MODULE MC_Cpu -------------------------------
(***************************************************************************)
(* Model checking of the SM83 step function (C05/C06 at model level).      *)
(* The program is not fixed: at every step TLC chooses the opcode and the  *)
(* operand bytes found at PC ("any program"), so all instruction sequences *)
(* up to MaxSteps over the opcode set are explored from the initial        *)
(* states.  Data memory is a small footprint with default 0.               *)
(* Checked: register ranges and the zero low nibble of F, program counter  *)
(* advance by the encoded length, cycle counts from the decode table,      *)
(* stack discipline of PUSH/CALL/RST (high byte first) and POP/RET, block  *)
(* ends, 16-bit wrap of PC and SP.                                         *)
(***************************************************************************)
EXTENDS SM83, TLC

CONSTANTS Ops, Bytes, InitSP, InitPC, MaxSteps
VARIABLES s, mem, steps, lastOp, lastOut, prev
vars == <<s, mem, steps, lastOp, lastOut, prev>>

Cpu0 == [a |-> 0, f |-> 0, b |-> 1, c |-> 2, d |-> 3, e |-> 4, h |-> 192, l |-> 16, sp |-> 0, pc |-> 0]
Init == /\ \E sp \in InitSP, pc \in InitPC, f \in {0, 16, 128, 240} : s = [Cpu0 EXCEPT !.sp = sp, !.pc = pc, !.f = f]
        /\ mem = << >> /\ steps = 0 /\ lastOp = 0 /\ prev = s
        /\ lastOut = [s |-> s, st |-> 0, cyc |-> 0, wr |-> << >>]

Get(a) == IF a \in DOMAIN mem THEN mem[a] ELSE 0
RECURSIVE Store(_, _)
Store(m, wr) == IF wr = << >> THEN m
                ELSE LET a == Head(wr)[1]  v == Head(wr)[2]
                     IN Store([x \in DOMAIN m \cup {a} |-> IF x = a THEN v ELSE m[x]], Tail(wr))

Step == /\ steps < MaxSteps /\ steps' = steps + 1
        /\ \E op \in Ops, b1 \in Bytes, b2 \in Bytes :
             LET RD(a) == IF a = s.pc THEN op ELSE IF a = W16(s.pc + 1) THEN b1 ELSE IF a = W16(s.pc + 2) THEN b2 ELSE Get(a)
                 out == Exec(s, RD)
             IN /\ s' = out.s /\ mem' = Store(mem, out.wr) /\ lastOp' = op /\ lastOut' = out /\ prev' = s
Next == Step
Spec == Init /\ [][Next]_vars

Reg8 == 0..255
TypeOK == /\ s.a \in Reg8 /\ s.b \in Reg8 /\ s.c \in Reg8 /\ s.d \in Reg8 /\ s.e \in Reg8 /\ s.h \in Reg8 /\ s.l \in Reg8
          /\ s.f \in {16 * k : k \in 0..15} /\ s.sp \in 0..65535 /\ s.pc \in 0..65535
          /\ \A i \in 1..Len(lastOut.wr) : lastOut.wr[i][1] \in 0..65535 /\ lastOut.wr[i][2] \in Reg8
\* instructions that do not end a block advance PC by their encoded length, modulo 2^16
LengthLaw == (steps > 0 /\ ~IsBlockEnd(lastOp)) => s.pc = (prev.pc + ILen(lastOp)) % 65536
\* every step charges the not-taken or the taken count of the decode table
CycleLaw == steps > 0 => lastOut.cyc \in {Cyc(lastOp, 0), CycTaken(lastOp, 0)} \/ lastOp = 203
\* pushes: SP - 2 modulo 2^16, high byte at SP-1 first, then low byte at SP-2
IsPush(op) == op \in {197, 213, 229, 245, 205} \cup {199 + 8 * i : i \in 0..7}
PushLaw == (steps > 0 /\ IsPush(lastOp)) =>
             /\ s.sp = (prev.sp - 2) % 65536
             /\ Len(lastOut.wr) = 2
             /\ lastOut.wr[1][1] = (prev.sp - 1) % 65536 /\ lastOut.wr[2][1] = (prev.sp - 2) % 65536
\* pops and returns read the low byte at SP, the high byte at SP+1 and add 2 modulo 2^16
IsPop(op) == op \in {193, 209, 225, 241, 201, 217}
PopLaw == (steps > 0 /\ IsPop(lastOp)) => (s.sp = (prev.sp + 2) % 65536 /\ lastOut.wr = << >>)
\* CALL pushes the address of the following instruction; RST pushes PC + 1
CallLaw == (steps > 0 /\ lastOp = 205) =>
             (lastOut.wr[1][2] = ((prev.pc + 3) % 65536) \div 256 /\ lastOut.wr[2][2] = ((prev.pc + 3) % 65536) % 256)
\* halt / interrupt-enable changes are reported by exactly the instructions that make them
StatusLaw == steps > 0 => ((lastOut.st = StHalt <=> lastOp = 118) /\ (lastOut.st = StStop <=> lastOp = 16)
                           /\ (lastOut.st = StEI <=> lastOp = 251) /\ (lastOut.st = StDI <=> lastOp = 243)
                           /\ (lastOut.st = StRETI <=> lastOp = 217))
=============================================================================
