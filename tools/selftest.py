"""./check selftest — binding demonstration.

For every trace / batch validator: record a trace from the real code, require acceptance, then
(a) corrupt one logged field of one record and (b) drop one record, and require TLC to reject the
trace at exactly that record.  A validator that accepts a corrupted trace is not bound to the code.
"""
import json, os, random, sys
import vlib, props, gbprog
from vlib import tlc, rundir


def lines_of(path):
    return open(path).read().splitlines()


def verdict(module, lines, tag):
    p = os.path.join(rundir(), "st_%s.ndjson" % tag)
    open(p, "w").write("\n".join(lines) + "\n")
    r = tlc(module, env={"TRACE": p}, dfs=True, check=False, timeout=900)
    if r.printed("TRACE_OK") or r.printed("BATCH_OK"):
        return ("ok", None)
    rej = r.printed("TRACE_REJECTED") or r.printed("BATCH_REJECTED")
    if not rej:
        raise vlib.ToolError("no verdict from %s:\n%s" % (module, "\n".join(r.text.splitlines()[-15:])))
    parts = rej[0].split(",")
    try:
        return ("rejected", int(parts[1]))
    except Exception:
        return ("rejected", None)


def mutate(lines, idx, fn):
    out = list(lines)
    r = json.loads(out[idx])
    fn(r)
    out[idx] = json.dumps(r, separators=(",", ":"))
    return out


def main():
    failures = []
    rng = random.Random(7)

    def expect(name, module, lines, idx, fn, batch=False, drop=True):
        v = verdict(module, lines, name + "_ok")
        if v[0] != "ok":
            failures.append("%s: unmodified trace not accepted %s" % (name, v))
            return
        v = verdict(module, mutate(lines, idx, fn), name + "_corrupt")
        good = v[0] == "rejected" and (batch or v[1] == idx + 1)
        print("selftest %-18s corrupt field @%d -> %s" % (name, idx + 1, v))
        if not good:
            failures.append("%s: corrupted record %d not rejected there: %s" % (name, idx + 1, v))
        if not batch and drop:
            dropped = lines[:idx] + lines[idx + 1:]
            v = verdict(module, dropped, name + "_drop")
            print("selftest %-18s drop record  @%d -> %s" % (name, idx + 1, v))
            if v[0] != "rejected":
                failures.append("%s: dropped record %d not noticed" % (name, idx + 1))

    def first_index(lines, pred, start=50):
        for i in range(start, len(lines)):
            if pred(json.loads(lines[i]), json.loads(lines[i - 1])):
                return i
        raise vlib.ToolError("no suitable record")

    # Joypad
    p = os.path.join(rundir(), "st_joy.ndjson")
    exe = vlib.build_harness()
    rc, o, e = vlib.sh([exe, "joypad-trace", "--events", "1500"], env={"VERIF_SEED": 3})
    L = o.splitlines()
    i = first_index(L, lambda r, q: r["ev"] == "press" and r["p1"] != q["p1"])
    expect("Trace_Joypad", "Trace_Joypad", L, i, lambda r: r.update(p1=r["p1"] ^ 1))
    # Timer
    n, _ = props.run_to_file(["timer-trace", "--mode", "random", "--events", 3000], p)
    L = lines_of(p)
    i = first_index(L, lambda r, q: r["ev"] == "adv" and r["tima"] != q["tima"] and q["ev"] != "reset")
    expect("Trace_Timer", "Trace_Timer", L, i, lambda r: r.update(tima=(r["tima"] + 1) % 256))
    # LCD
    n, _ = props.run_to_file(["lcd-trace", "--mode", "random", "--events", 3000], p)
    L = lines_of(p)
    i = first_index(L, lambda r, q: r["ev"] == "adv" and r["ly"] != q["ly"])
    expect("Trace_Lcd", "Trace_Lcd", L, i, lambda r: r.update(ly=(r["ly"] + 1) % 154))
    # DMA
    n, _ = props.run_to_file(["dma-trace", "--events", 1500], p)
    L = lines_of(p)
    i = next(k for k in range(50, len(L) - 1) if json.loads(L[k])["ev"] == "adv" and json.loads(L[k])["act"] == 1
             and json.loads(L[k])["off"] != json.loads(L[k - 1])["off"] and json.loads(L[k + 1])["ev"] == "adv"
             # (the transfer must still be going after the next batch: two batches that together finish it leave the same
             #  state as the second alone would, which is the batching independence the property states, not a missed drop)
             and json.loads(L[k + 1])["act"] == 1)
    expect("Trace_Dma", "Trace_Dma", L, i, lambda r: r["oam"].__setitem__(r["off"] - 1, r["oam"][r["off"] - 1] ^ 0x40))
    # whole machine: registers, write list, serial bytes; clock projection
    scs = gbprog.structured_programs(4, rng, steps=300) + gbprog.serial_programs(2, rng)
    sp = os.path.join(rundir(), "st_sc.ndjson")
    gbprog.write_scenarios(sp, scs)
    tp = os.path.join(rundir(), "st_machine.ndjson")
    vlib.sh([exe, "machine", "--scenarios", sp, "--out", tp], env={"VERIF_SEED": 3})
    L = lines_of(tp)
    i = first_index(L, lambda r, q: r["ev"] == "step" and q["ev"] == "step" and r["o"]["af"] != q["o"]["af"])
    expect("Machine.registers", "Trace_Machine", L, i, lambda r: r["o"].update(af=r["o"]["af"] ^ 0x0100))
    i = first_index(L, lambda r, q: r["ev"] == "step" and len(r["wr"]) > 0)
    expect("Machine.writes", "Trace_Machine", L, i, lambda r: r["wr"][0].__setitem__(1, r["wr"][0][1] ^ 1))
    i = first_index(L, lambda r, q: r["ev"] == "step" and len(r["out"]) > 0)
    expect("Machine.serial", "Trace_Machine", L, i, lambda r: r["out"].append(33))
    i = first_index(L, lambda r, q: r["ev"] == "step" and q["ev"] == "step")
    # (a dropped step is invisible to the time projection: conservation is a per-step law)
    expect("Trace_Clock", "Trace_Clock", L, i, lambda r: r["clk"].__setitem__(1, r["clk"][1] + 4), drop=False)
    # hook disabled: the CPU-cycle hook reporting nothing
    v = verdict("Trace_Clock", mutate(L, i, lambda r: r.update(cpu=0)), "clock_nohook")
    print("selftest %-18s hook silenced @%d -> %s" % ("Trace_Clock", i + 1, v))
    if v[0] != "rejected":
        failures.append("Trace_Clock: silenced hook not noticed")
    # register echo (C10): a stale read-back of a plain register must be rejected
    bt = os.path.join(rundir(), "st_bus.ndjson")
    vlib.sh([exe, "bus-trace", "--events", "6000", "--out", bt], env={"VERIF_SEED": 3})
    L = lines_of(bt)
    echo = {65286, 65287, 65344, 65345, 65346, 65347, 65349, 65351, 65352, 65353, 65354, 65355}
    written = set()
    i = None
    for k, line in enumerate(L):
        r = json.loads(line)
        if r["ev"] == "init": written = set()
        if r["ev"] == "bw" and r["a"] in echo: written.add(r["a"])
        if r["ev"] == "br" and r["a"] in written and r["a"] not in (65287, 65345) and k > 50:
            i = k; break
    expect("Trace_RegEcho", "Trace_RegEcho", L, i, lambda r: r.update(v=r["v"] ^ 0x10), drop=False)
    # batch validators
    dp = os.path.join(rundir(), "st_dbg.ndjson")
    vlib.gbv(["debug", "--out", dp, "--family", "malformed"])
    L = lines_of(dp)
    i = next(k for k, l in enumerate(L) if json.loads(l)["k"] == "addr" and json.loads(l)["res"] >= 0)
    expect("Val_Debugger", "Val_Debugger", L, i, lambda r: r.update(res=r["res"] + 1), batch=True)
    scn = gbprog.scenes(2, rng)
    spp = os.path.join(rundir(), "st_scenes.ndjson"); fp = os.path.join(rundir(), "st_frames.ndjson")
    vlib.write_ndjson(spp, scn)
    vlib.gbv(["ppu", "--scenes", spp, "--out", fp])
    L = lines_of(fp)
    expect("Val_Ppu", "Val_Ppu", L, 1, lambda r: r["frame"].__setitem__(12345, 255 - r["frame"][12345]), batch=True)
    if failures:
        for f in failures:
            print("SELFTEST-FAILED", f)
        return 2
    print("selftest: every validator accepted the recorded trace and rejected its corrupted variants")
    return 0
