//! C07: replay of the complete interrupt-dispatch space (Gen_Irq.tla) through
//! Core::handle_interrupt, and through Core::update for halted/stopped states.
use crate::emulator::Core;
use crate::util::*;
use crate::world::*;
use serde_json::{json, Value};

fn load(core: &mut Core, pre: &Value) {
  core.registers.ip = ju(&pre["pc"]) as u32;
  core.registers.sp = ju(&pre["sp"]) as u32;
  core.registers.cycles = 0;
  core.interrupts_enabled = ime_from(pre["ime"].as_str().unwrap());
  core.run_state = run_from(pre["run"].as_str().unwrap());
  poke(core, 0xff0f, ju(&pre["iflag"]) as u8);
  poke(core, 0xffff, ju(&pre["ie"]) as u8);
}

fn observe(core: &Core) -> Value {
  let (pc, sp) = (core.registers.ip, core.registers.sp);
  json!({"pc": pc, "sp": sp, "ime": ime_name(&core.interrupts_enabled),
         "run": run_name(&core.run_state), "iflag": core.memory.io.interrupt_flag.as_u8(), "ie": core.memory.io.interrupt_mask})
}

pub fn run(args: &[String]) {
  let cases = read_ndjson(&arg_value(args, "--cases").expect("--cases"));
  let mut core = plain_core();
  let mut n = 0u64; let mut via_update = 0u64;
  for case in &cases {
    for path in 0..2 {
      let halted = case["pre"]["run"] != "Run";
      if path == 1 && !halted { continue; }
      if path == 1 { core.memory.io = crate::devices::io::IO::new(); core.memory.oam_dma = None; via_update += 1; }   // fresh devices: 4 clocks from power-on raise nothing
      load(&mut core, &case["pre"]);
      rec_start();
      if path == 0 { core.handle_interrupt(); } else { core.update(); }
      let log = rec_stop();
      let wr = writes_only(&log);
      let obs = observe(&core);
      let cyc = core.registers.cycles;
      let ewr: Vec<(u16, u8)> = case["wr"].as_array().unwrap().iter().map(|w| (ju(&w[0]) as u16, ju(&w[1]) as u8)).collect();
      let mut d: Vec<&str> = Vec::new();
      for k in ["pc", "sp", "ime", "run", "iflag", "ie"].iter() { if obs[*k] != case["post"][*k] { d.push(k); } }
      if cyc as u64 != ju(&case["cyc"]) { d.push("cyc"); }
      if wr != ewr { d.push("wr"); }
      if !d.is_empty() {
        println!("{}", json!({"kind": "mismatch", "path": if path == 0 { "handle_interrupt" } else { "update" }, "fields": d,
          "case": case, "obs": obs, "obs_cyc": cyc, "obs_wr": wr.iter().map(|w| json!([w.0, w.1])).collect::<Vec<_>>()}));
      }
      n += 1;
    }
  }
  println!("{}", json!({"kind": "summary", "cases": cases.len(), "executions": n, "via_update": via_update}));
}
