//! C19 (in-process part): header parsing, checksum, size tables and controller support of the
//! real loader functions on files generated from Gen_Load.tla.
use crate::util::*;
use serde_json::{json, Value};
use std::io::Write;
use std::os::unix::fs::FileExt;

pub fn run(args: &[String]) {
  let cases = read_ndjson(&arg_value(args, "--cases").expect("--cases"));
  let dir = arg_value(args, "--dir").expect("--dir");
  silence_panics();
  let mut n = 0u64;
  for case in &cases {
    let path = format!("{}/load_{}.gb", dir, std::process::id());
    let flen = ju(&case["fileLen"]);
    let hdr: Vec<u8> = case["hdr"].as_array().unwrap().iter().map(|x| ju(x) as u8).collect();
    {
      let f = std::fs::OpenOptions::new().create(true).write(true).truncate(true).open(&path).unwrap();
      f.set_len(flen).unwrap();
      let avail = if flen > 0x100 { (flen - 0x100).min(80) as usize } else { 0 };
      if avail > 0 { f.write_all_at(&hdr[..avail], 0x100).unwrap(); }
    }
    let exp = &case["exp"];
    let mut obs = json!({"opened": false});
    if let Ok(mut file) = crate::system::open_rom_file(path.clone()) {
      obs["opened"] = json!(true);
      match crate::system::read_header(&mut file) {
        Err(msg) => { obs["header"] = json!(msg); },
        Ok(h) => {
          obs["header"] = json!("ok");
          obs["checksum"] = json!(h.valid_checksum());
          obs["rom"] = json!(h.get_rom_size_bytes());
          obs["ram"] = json!(h.get_ram_size_bytes());
          let r = std::panic::catch_unwind(|| { let _ = h.create_cart_state(); });
          obs["supported"] = json!(r.is_ok());
          // what the loader builds from an accepted file: ROM and cartridge RAM of the sizes the tables give, and RAM that
          // stores a byte exactly when there is some
          if exp["ok"].as_bool().unwrap_or(false) && r.is_ok() {
            let built = std::panic::catch_unwind(std::panic::AssertUnwindSafe(|| {
              let mut m = crate::mem::MemoryAreas::with_rom_file(&mut file, &h);
              let p = &mut m as *mut crate::mem::MemoryAreas;
              crate::mem::memory_write_byte(p, 0xa000, 0x5a);
              crate::mem::memory_write_byte(p, 0xa7ff, 0xa5);
              // the controller that was built: a ROM-only cartridge ignores bank-register writes, MBC1 / MBC3 select bank 2
              crate::mem::memory_write_byte(p, 0x2000, 2);
              (m.rom.len(), m.cart_ram.len(), crate::mem::memory_read_byte(p, 0xa000), crate::mem::memory_read_byte(p, 0xa7ff), m.get_rom_bank())
            }));
            match built {
              Ok((rl, cl, b0, b1, bank)) => { obs["built_rom"] = json!(rl); obs["built_ram"] = json!(cl); obs["ram_rw"] = json!([b0, b1]); obs["bank_after_write"] = json!(bank); },
              Err(_) => { obs["built_rom"] = json!(-1); },
            }
          }
        },
      }
    }
    let mut d: Vec<&str> = Vec::new();
    let why = exp["why"].as_str().unwrap_or("");
    let header_ok = obs["header"] == "ok";
    if (flen >= 0x150) != header_ok { d.push("header-read"); }
    if header_ok {
      let cs = obs["checksum"].as_bool().unwrap();
      if (why == "checksum") == cs && why != "too-short" { d.push("checksum"); }
      if cs {
        if obs["rom"] != case["romsize"] { d.push("rom-size"); }
        if obs["ram"] != case["ramsize"] { d.push("ram-size"); }
        if obs["supported"].as_bool().unwrap() != (case["kind"] != "unsupported") { d.push("type-support"); }
        if !obs["built_rom"].is_null() {
          if obs["built_rom"] != case["romsize"] { d.push("built-rom-size"); }
          if obs["built_ram"] != case["ramsize"] { d.push("built-ram-size"); }
          let stores = obs["ram_rw"] == json!([0x5a, 0xa5]);
          if stores != (ju(&case["ramsize"]) > 0) { d.push("ram-storage"); }
          let want_bank = if case["kind"] == "rom" { 1 } else { 2 };
          if ju(&obs["bank_after_write"]) != want_bank { d.push("controller-kind"); }
        }
      }
    }
    n += 1;
    if !d.is_empty() { println!("{}", json!({"kind": "mismatch", "id": case["id"], "fam": case["fam"], "fields": d, "exp": exp, "obs": obs, "fileLen": flen, "hdr_type_rom_ram": [hdr[71], hdr[72], hdr[73]]})); }
    let _ = std::fs::remove_file(&path);
  }
  println!("{}", json!({"kind": "summary", "cases": n}));
}
