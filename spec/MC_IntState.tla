---------------------------- MODULE MC_IntState ----------------------------
(***************************************************************************)
(* Model checking of the interrupt master-enable / halt state machine      *)
(* (C08) over every instruction sequence up to MaxLen drawn from           *)
(*   EI, DI, RETI, HALT, STOP, NOP, REQ(v) (IF := v), WIE(v) (IE := v)     *)
(* executed one instruction at a time, with requests also arriving from    *)
(* devices while the CPU is halted or stopped.  The sequencing is the one   *)
(* of Machine!StepInstr / Machine!HaltTick (ImeAfterInstr, RunAfter and    *)
(* the dispatch rule are shared definitions, not copies).                  *)
(***************************************************************************)
EXTENDS Machine

CONSTANTS MaxLen, ReqVals, IeVals
VARIABLES ime, run, iflag, ie, n, lastSym, lastDisp, imeAtCheck, executed
vars == <<ime, run, iflag, ie, n, lastSym, lastDisp, imeAtCheck, executed>>

\* a symbol is <<name, argument>>
Syms == {<<x, 0>> : x \in {"EI", "DI", "RETI", "HALT", "STOP", "NOP"}} \cup {<<"REQ", v>> : v \in ReqVals} \cup {<<"WIE", v>> : v \in IeVals}
StatusOf(sym) == CASE sym[1] = "EI" -> StEI [] sym[1] = "DI" -> StDI [] sym[1] = "RETI" -> StRETI
                   [] sym[1] = "HALT" -> StHalt [] sym[1] = "STOP" -> StStop [] OTHER -> StNormal

Init == /\ ime \in {"Enabled", "Disabled"} /\ run = "Run" /\ iflag \in {0, 4} /\ ie \in {0, 4, 5}
        /\ n = 0 /\ lastSym = <<"none", 0>> /\ lastDisp = FALSE /\ imeAtCheck = ime /\ executed = FALSE

\* the interrupt check that ends every step (Irq!Dispatch restricted to the state machine)
Check(ime1, run1, if1, ie1) ==
  LET pend == if1 & ie1 IN
  IF pend = 0 THEN [ime |-> ime1, run |-> run1, iflag |-> if1, disp |-> FALSE]
  ELSE IF ime1 # "Enabled" THEN [ime |-> ime1, run |-> "Run", iflag |-> if1, disp |-> FALSE]
  ELSE [ime |-> "Disabled", run |-> "Run", iflag |-> ClearBit(if1, LowestBit(pend)), disp |-> TRUE]

Instr(sym) ==
  /\ run = "Run" /\ n < MaxLen
  \* HALT executed while an enabled interrupt is already pending is excluded (hardware quirk not modelled)
  /\ ~(sym[1] \in {"HALT", "STOP"} /\ (iflag & ie) # 0)
  /\ LET st == StatusOf(sym)
         ime1 == ImeAfterInstr(ime, st)
         run1 == RunAfter(run, st)
         if1 == IF sym[1] = "REQ" THEN sym[2] ELSE iflag
         ie1 == IF sym[1] = "WIE" THEN sym[2] ELSE ie
         r == Check(ime1, run1, if1, ie1)
     IN /\ ime' = r.ime /\ run' = r.run /\ iflag' = r.iflag /\ ie' = ie1
        /\ lastDisp' = r.disp /\ imeAtCheck' = ime1 /\ lastSym' = sym /\ n' = n + 1 /\ executed' = TRUE

\* a halted / stopped CPU: one machine cycle passes, a device may raise a request
Tick(arrive) ==
  /\ run # "Run" /\ n < MaxLen
  /\ LET r == Check(ime, run, iflag | arrive, ie)
     IN /\ ime' = r.ime /\ run' = r.run /\ iflag' = r.iflag /\ UNCHANGED ie
        /\ lastDisp' = r.disp /\ imeAtCheck' = ime /\ lastSym' = <<"tick", 0>> /\ n' = n + 1 /\ executed' = FALSE

DoInstr == \E sym \in Syms : Instr(sym)
DoTick  == \E a \in {0, 1, 4} : Tick(a)
Next == DoInstr \/ DoTick
Spec == Init /\ [][Next]_vars

\* no interrupt is ever dispatched while the master enable is off
NeverWhileOff == lastDisp => imeAtCheck = "Enabled"
\* EI enables dispatch only after the following instruction has completed
EiDelay == [][(lastSym'[1] = "EI" /\ ime = "Disabled") => (~lastDisp' /\ ime' = "EnableNext")]_vars
EiTakesEffect == [][(ime = "EnableNext" /\ executed' /\ lastSym'[1] # "DI") =>
                      (imeAtCheck' = "Enabled")]_vars
\* DI and RETI take effect immediately
DiImmediate == [][lastSym'[1] = "DI" => (ime' = "Disabled" /\ ~lastDisp')]_vars
RetiImmediate == [][lastSym'[1] = "RETI" => imeAtCheck' = "Enabled"]_vars
\* HALT / STOP suspend execution until an enabled interrupt is requested
Suspended == [][(run # "Run") => ~executed']_vars
Resumes == [][(run # "Run" /\ (iflag' & ie') # 0) => TRUE]_vars
WakeLaw == (run # "Run") => (iflag & ie) = 0
=============================================================================
