----------------------------- MODULE Thm_Machine -----------------------------
(***************************************************************************)
(* Coherence theorems of the whole-machine specification, checked by TLC   *)
(* (ASSUME).  They tie Machine.tla to the device modules it instantiates   *)
(* and state, at machine level, the laws the listed properties state per   *)
(* device:                                                                 *)
(*                                                                         *)
(*  DispatchRefinesIrq   the machine's interrupt check is Irq!Dispatch     *)
(*                       (C07) on the projection (pc, sp, ime, run, IF,    *)
(*                       IE), including pushes that land on IE or IF, and  *)
(*                       charges exactly its cycles as pending time;       *)
(*  CatchUpAdditive      letting a + b clocks elapse in one catch-up is    *)
(*                       the same as a then b: machine state (timer, LCD,  *)
(*                       DMA progress and OAM contents, joypad latch, IF)  *)
(*                       and the ordered DMA bus writes (C09/C13/C14/C16   *)
(*                       at once);                                         *)
(*  HaltedTime           n steps of a halted CPU that nothing wakes are    *)
(*                       one catch-up of 4n clocks (C08/C09);              *)
(*  BlockIsInstructions  a block step executes exactly the instructions    *)
(*                       that instruction steps would, up to and including *)
(*                       the first block-ending one, when no device        *)
(*                       register is read in between: same CPU state, bus  *)
(*                       writes and cycle total (C04's two stepping modes  *)
(*                       compute the same thing between interrupt checks). *)
(***************************************************************************)
EXTENDS Machine, IOUtils

I == INSTANCE Irq

Deep == "DEEP" \in DOMAIN IOEnv

Cart0 == C!NewCart(0, 0, 0)
Base == PowerOnMachine(Cart0, ZeroCpu, << >>, 0)

(* ---- DispatchRefinesIrq -------------------------------------------------- *)
Proj(m) == [pc |-> m.s.pc, sp |-> m.s.sp, ime |-> m.ime, run |-> m.run, iflag |-> m.iflag, ie |-> m.ie]
Sps == {0, 1, 2, 3, 49152, 57343, 65295, 65296, 65297, 65298, 65534, 65535} \cup (IF Deep THEN {4, 32768, 40960, 65024, 65184, 65279, 65280, 65408} ELSE {})
Pcs == {0, 4660, 255, 65280, 8191, 65535} \cup (IF Deep THEN {1, 256, 16, 31, 57599} ELSE {})
ASSUME DispatchRefinesIrq ==
  \A sp \in Sps, pc \in Pcs, ime \in {"Enabled", "Disabled", "EnableNext"}, run \in {"Run", "Halt", "Stop"},
     iflag \in 0..31, ie \in (IF Deep THEN 0..31 ELSE {0, 1, 2, 4, 5, 8, 16, 24, 31}) :
    LET m == [Base EXCEPT !.s.sp = sp, !.s.pc = pc, !.ime = ime, !.run = run, !.iflag = iflag, !.ie = ie]
        dm == DispatchM(m)
        di == I!Dispatch(Proj(m))
    IN /\ Proj(dm.m) = di.c
       /\ dm.wr = di.wr
       /\ dm.m.pend = di.cyc
       /\ dm.disp = (di.cyc = 5)
       /\ dm.out = << >>

(* ---- CatchUpAdditive ------------------------------------------------------ *)
\* a machine with every device busy: timer running, LCD mid-line with STAT sources enabled, a DMA in flight from work RAM,
\* a joypad request latched
Busy(div, tac, tima, q, en, lyc, off, jp) ==
  [Base EXCEPT !.t = [div |-> div, tima |-> tima, tma |-> 250, tac |-> tac],
               !.p = [q |-> q, en |-> en, lyc |-> lyc],
               !.d = [active |-> off < 160, page |-> 192, off |-> IF off < 160 THEN off ELSE 0],
               !.js = [J!PowerOn EXCEPT !.pending = jp],
               !.mem = [k \in 49152..49311 |-> (7 * (k - 49152) + 3) % 256]]
Batches == {0, 4, 8, 80, 188, 456, 640, 4560, 70224} \cup (IF Deep THEN {12, 16, 268, 1024, 65536, 140448} ELSE {})
ASSUME CatchUpAdditive ==
  \A div \in {0, 1020, 65532}, tac \in {0, 5, 4}, tima \in {0, 255}, q \in {0, 76, 264, 65660, 70220}, en \in {0, 120},
     off \in {0, 100, 159, 160}, jp \in BOOLEAN, a \in Batches, b \in Batches :
    LET m == Busy(div, tac, tima, q, en, 0, off, jp)
        ra == CatchUp(m, a)
        rb == CatchUp(ra.m, b)
        rr == CatchUp(m, a + b)
    IN rb.m = rr.m /\ ra.wr \o rb.wr = rr.wr

(* ---- HaltedTime ----------------------------------------------------------- *)
RECURSIVE Ticks(_, _)
Ticks(m, n) == IF n = 0 THEN m ELSE Ticks(HaltTick(m).m, n - 1)
ASSUME HaltedTime ==
  \A q \in {0, 65000, 65652}, ie \in {0, 1, 4}, n \in {1, 2, 57, 200} :
    LET m == [Busy(0, 5, 0, q, 0, 0, 160, FALSE) EXCEPT !.run = "Halt", !.ie = ie]
        cu == CatchUp(m, 4 * n).m
    IN \* nothing enabled is requested within the interval: still halted, and time has simply passed
       (cu.iflag & ie) = 0 => Ticks(m, n) = cu

(* ---- BlockIsInstructions -------------------------------------------------- *)
\* LD A,0x12 ; INC A ; LD (HL),A ; ADD A,B ; PUSH BC ; <terminator>
Prog(term) == (256 :> 62) @@ (257 :> 18) @@ (258 :> 60) @@ (259 :> 119) @@ (260 :> 128) @@ (261 :> 197)
              @@ (262 :> term[1]) @@ (263 :> term[2]) @@ (264 :> term[3])
Terms == {<<195, 0, 2>>, <<24, 254, 0>>, <<201, 0, 0>>, <<205, 52, 18>>, <<118, 0, 0>>, <<251, 0, 0>>, <<243, 0, 0>>, <<233, 0, 0>>, <<217, 0, 0>>,
          <<32, 5, 0>>, <<40, 5, 0>>, <<199, 0, 0>>, <<16, 0, 0>>}
\* instruction steps without the device catch-up and interrupt check in between (that is what a block is)
RECURSIVE Instrs(_, _, _, _)
Instrs(m, cyc, wr, n) ==
  LET e == ExecM(m) IN
  IF e.be \/ n = 0 THEN [m |-> e.m, st |-> e.st, cyc |-> cyc + e.cyc, wr |-> wr \o e.wr]
  ELSE Instrs(e.m, cyc + e.cyc, wr \o e.wr, n - 1)
ASSUME BlockIsInstructions ==
  \A term \in Terms, f \in {0, 128, 16, 240}, hl \in {49152, 65408, 57343} :
    LET m == [PowerOnMachine(Cart0, [ZeroCpu EXCEPT !.pc = 256, !.f = f, !.h = hl \div 256, !.l = hl % 256, !.sp = 57328, !.b = 200, !.c = 9],
                             Prog(term), 0) EXCEPT !.ime = "Disabled"]
        blk == ExecBlockM(m)
        seq == Instrs(m, 0, << >>, 20)
    IN blk.ok /\ blk.m = seq.m /\ blk.st = seq.st /\ blk.cyc = seq.cyc /\ blk.wr = seq.wr /\ blk.n = 6
=============================================================================
