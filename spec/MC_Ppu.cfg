SPECIFICATION Spec
CONSTANTS
  Scenes = {1, 2}
INVARIANT ShadeOK
INVARIANT SelectionLaw
INVARIANT BackgroundLaw
INVARIANT PriorityLaw
INVARIANT OffscreenLaw
CHECK_DEADLOCK FALSE
