---------------------------- MODULE Trace_Joypad ----------------------------
(***************************************************************************)
(* impl -> spec: validates recorded joypad histories against Joypad.tla.   *)
(* Each record: {ev, arg, p1: value read at 0xFF00 & 0x3F afterwards,      *)
(*               out: 0/1, if4: bit 4 of IF as the bus shows it afterwards}*)
(*   reset            a new history from power-on                          *)
(*   press/release b  the environment                                      *)
(*   select v         a bus write of v to P1                               *)
(*   collect          IF := 0, one machine cycle of device time, out = IF.4*)
(*   ack              IF := 0                                              *)
(*   tick how         one machine cycle of device time without             *)
(*                    acknowledging first: directly (0), through           *)
(*                    Core::update of a halted (1) or stopped (2) CPU      *)
(* The request reaches IF when device time passes, not before ("reported   *)
(* once"): ifb is IF bit 4 according to the specification, and every       *)
(* record's if4 must equal it.                                             *)
(***************************************************************************)
EXTENDS Joypad, TLC, IOUtils, Json, Sequences

Recs == ndJsonDeserialize(IOEnv.TRACE)

VARIABLES joy, ifb, l

Init == joy = PowerOn /\ ifb = FALSE /\ l = 1

IsEvent(e) == l <= Len(Recs) /\ Recs[l].ev = e /\ l' = l + 1
Seen == P1(joy') = Recs[l].p1 /\ B2N(ifb') = Recs[l].if4

Reset   == IsEvent("reset") /\ joy' = PowerOn /\ ifb' = FALSE /\ Seen
DoPress == IsEvent("press") /\ joy' = Press(joy, Recs[l].arg) /\ UNCHANGED ifb /\ Seen
DoRelease == IsEvent("release") /\ joy' = Release(joy, Recs[l].arg) /\ UNCHANGED ifb /\ Seen
DoSelect == IsEvent("select") /\ joy' = Select(joy, Recs[l].arg) /\ UNCHANGED ifb /\ Seen
DoCollect == IsEvent("collect") /\ joy' = Collect(joy).js /\ ifb' = Collect(joy).out /\ B2N(ifb') = Recs[l].out /\ Seen
DoAck == IsEvent("ack") /\ UNCHANGED joy /\ ifb' = FALSE /\ Seen
DoTick == IsEvent("tick") /\ joy' = Collect(joy).js /\ ifb' = (ifb \/ Collect(joy).out) /\ Seen

Next == Reset \/ DoPress \/ DoRelease \/ DoSelect \/ DoCollect \/ DoAck \/ DoTick
TraceSpec == Init /\ [][Next]_<<joy, ifb, l>>

Matched == TLCGet("stats").diameter - 1
TraceAccepted ==
  IF Matched = Len(Recs) THEN PrintT(<<"TRACE_OK", Len(Recs)>>)
  ELSE /\ PrintT(<<"TRACE_REJECTED", Matched + 1, ToJson(Recs[Matched + 1])>>)
       /\ FALSE
=============================================================================
