------------------------------- MODULE Gen_Irq -------------------------------
(***************************************************************************)
(* spec -> impl: the complete dispatch space of C07 exported for replay    *)
(* through Core::handle_interrupt (and Core::update for halted/stopped     *)
(* states).  IF(32) x IE(32) x IME(3) x run(3) x SP class x PC class.      *)
(* Environment: OUT, SHARD, SHARDS.                                        *)
(***************************************************************************)
EXTENDS Irq, TLC, IOUtils, Json

Env(name, default) == IF name \in DOMAIN IOEnv THEN IOEnv[name] ELSE default
OutFile == Env("OUT", "/tmp/gen_irq.ndjson")
Shard   == atoi(Env("SHARD", "0"))
Shards  == atoi(Env("SHARDS", "1"))

\* stack pointers: work RAM; 0, 1, 2 (pushes on IE / wrap through ROM); 0xFF10, 0xFF11 (pushes on IF);
\* ROM (bank-register range), VRAM edge, OAM edge, echo, unused, high RAM edges, 0xFFFF
SPs == <<49152, 0, 1, 2, 65296, 65297, 8193, 32769, 40960, 65025, 57346, 65186, 65409, 65535, 53248>>
PCs == <<4660, 0, 65534, 255>>
Imes == <<"Enabled", "Disabled", "EnableNext">>
Runs == <<"Run", "Halt", "Stop">>

NSP == Len(SPs)
NPC == Len(PCs)
Total == 32 * 32 * 3 * 3 * NSP * NPC

Case(k) ==
  LET iflag == k % 32
      r1 == k \div 32
      ie == r1 % 32
      r2 == r1 \div 32
      ime == Imes[(r2 % 3) + 1]
      r3 == r2 \div 3
      run == Runs[(r3 % 3) + 1]
      r4 == r3 \div 3
      sp == SPs[(r4 % NSP) + 1]
      pc == PCs[(r4 \div NSP) + 1]
      c0 == [pc |-> pc, sp |-> sp, ime |-> ime, run |-> run, iflag |-> iflag, ie |-> ie]
      r == Dispatch(c0)
  IN [id |-> k, pre |-> c0, post |-> r.c, wr |-> r.wr, cyc |-> r.cyc]

Mine == {k \in 0..(Total - 1) : k % Shards = Shard}
MineSeq == [i \in 1..(((Total - 1 - Shard) \div Shards) + 1) |-> Shard + (i - 1) * Shards]

ASSUME PrintT(<<"GEN_IRQ", Total, Len(MineSeq)>>)
ASSUME ndJsonSerialize(OutFile, [i \in 1..Len(MineSeq) |-> Case(MineSeq[i])])
=============================================================================
