// gbv: conformance harness binding the TLA+ specification in /verif/spec to
// the working tree of /repo.  The repository is a binary crate, so its modules
// are included by path; `crate::` paths inside them resolve against this crate.
#![allow(dead_code, unused)]
#[path = "/repo/src/cache/mod.rs"] pub mod cache;
#[path = "/repo/src/cpu.rs"] pub mod cpu;
#[path = "/repo/src/cart.rs"] pub mod cart;
#[path = "/repo/src/debug/mod.rs"] pub mod debug;
#[path = "/repo/src/decoder/mod.rs"] pub mod decoder;
#[path = "/repo/src/devices/mod.rs"] pub mod devices;
#[path = "/repo/src/emitter/mod.rs"] pub mod emitter;
#[path = "/repo/src/emulator.rs"] pub mod emulator;
#[path = "/repo/src/interpreter/mod.rs"] pub mod interpreter;
#[path = "/repo/src/mem.rs"] pub mod mem;
#[path = "/repo/src/system/mod.rs"] pub mod system;
#[path = "/repo/src/timing.rs"] pub mod timing;

pub mod util;
pub mod world;
pub mod cmd_instr;
pub mod cmd_joypad;
pub mod cmd_timer;
pub mod cmd_lcd;
pub mod cmd_dma;
pub mod cmd_irq;
pub mod cmd_machine;
pub mod cmd_bus;
pub mod cmd_alu;
pub mod cmd_decode;
pub mod cmd_load;
pub mod cmd_debug;
pub mod cmd_ppu;
pub mod cmd_raster;
pub mod abi;

fn main() {
  let args: Vec<String> = std::env::args().collect();
  let cmd = args.get(1).map(|s| s.as_str()).unwrap_or("");
  match cmd {
    "instr" => cmd_instr::run(&args[2..]),
    "joypad" => cmd_joypad::run(&args[2..]),
    "joypad-trace" => cmd_joypad::trace(&args[2..]),
    "timer-trace" => cmd_timer::trace(&args[2..]),
    "timer-partitions" => cmd_timer::partitions(&args[2..]),
    "lcd-trace" => cmd_lcd::trace(&args[2..]),
    "dma-trace" => cmd_dma::trace(&args[2..]),
    "irq" => cmd_irq::run(&args[2..]),
    "machine" => cmd_machine::run(&args[2..]),
    "mbc" => cmd_bus::mbc(&args[2..]),
    "bus-crash" => cmd_bus::crash(&args[2..]),
    "bus-sweep" => cmd_bus::sweep(&args[2..]),
    "bus-trace" => cmd_bus::trace(&args[2..]),
    "alu-sweep" => cmd_alu::run(&args[2..]),
    "decode" => cmd_decode::run(&args[2..]),
    "blocks" => cmd_instr::blocks(&args[2..]),
    "cache-pressure" => cmd_machine::cache_pressure(&args[2..]),
    "load" => cmd_load::run(&args[2..]),
    "debug" => cmd_debug::run(&args[2..]),
    "ppu" => cmd_ppu::run(&args[2..]),
    "ppu-raster" => cmd_raster::run(&args[2..]),
    "version" => println!("gbv jit={}", cfg!(feature = "jit")),
    _ => { eprintln!("usage: gbv <command> ..."); std::process::exit(2); }
  }
}
