-------------------------------- MODULE ApaDma --------------------------------
(***************************************************************************)
(* Typed restatement of the progress part of Dma.tla for Apalache.  C16:    *)
(* the transfer "is complete after 160 machine cycles, and its result does  *)
(* not depend on how that time is split into catch-up batches".             *)
(* Dma!Run copies the bytes off .. off + Count - 1 and is idle again once   *)
(* off reaches len.  ProgressAdditive: for EVERY offset and every a, b the  *)
(* bytes copied by a then b machine cycles are exactly those copied by      *)
(* a + b (same first byte, same count, contiguous), the transfer ends in    *)
(* the same state, and it is over after len cycles however they are split.  *)
(*   apalache-mc check --init=Init --inv=ProgressAdditive --length=0 ApaDma.tla *)
(***************************************************************************)
EXTENDS Integers

VARIABLES
  \* @type: Int;
  off,
  \* @type: Int;
  a,
  \* @type: Int;
  b

Len == 160
Min(x, y) == IF x < y THEN x ELSE y
\* state: offset in 0..Len-1 while active, Len stands for "idle" (no byte left)
Count(o, k) == Min(Len - o, k)
OffAfter(o, k) == o + Count(o, k)

Init == off \in 0..159 /\ a \in 0..16777216 /\ b \in 0..16777216
Next == UNCHANGED <<off, a, b>>

ProgressAdditive ==
  LET o1 == OffAfter(off, a) IN
  /\ Count(off, a) + Count(o1, b) = Count(off, a + b)         \* as many bytes
  /\ OffAfter(o1, b) = OffAfter(off, a + b)                   \* ending at the same place (the second batch starts where the first ended)
  /\ (a + b >= Len => OffAfter(o1, b) = Len)                  \* complete after 160 machine cycles, however they are split
  /\ (a + b < Len - off => OffAfter(o1, b) < Len)             \* and not before
=============================================================================
