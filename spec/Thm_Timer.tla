------------------------------ MODULE Thm_Timer ------------------------------
(***************************************************************************)
(* Theorems about Timer.tla checked exhaustively by TLC (ASSUME):          *)
(* the closed form equals the per-clock definition, and elapsed time is    *)
(* additive, so the result cannot depend on catch-up batching.             *)
(***************************************************************************)
EXTENDS Timer, TLC, IOUtils

Deep == "DEEP" \in DOMAIN IOEnv     \* thorough tier: the larger grids

Phases == (0..17) \cup {31, 32, 63, 64, 127, 128, 255, 256, 511, 512, 1008, 1023, 1024, 40000} \cup (65520..65535)
Timas  == {0, 254, 255}
Tmas   == {0, 254}
T(d, tac, tima, tma) == [div |-> d, tima |-> tima, tma |-> tma, tac |-> tac]

ASSUME ClosedFormIsIterated ==
  \A d \in Phases, tac \in 0..7, tima \in Timas, tma \in Tmas, n \in (IF Deep THEN {0, 1, 3, 4, 8, 16, 17, 64} ELSE {1, 4, 17}) :
    Run(T(d, tac, tima, tma), n) = Iter(T(d, tac, tima, tma), n)

\* long runs against the iterated definition on a thinner grid (multiple overflows)
ASSUME ClosedFormIsIteratedLong ==
  ~Deep \/ \A d \in {9, 65530}, tac \in {4, 5, 6, 7, 1}, tima \in {250}, tma \in {240, 255}, n \in {1024, 5000} :
    Run(T(d, tac, tima, tma), n) = Iter(T(d, tac, tima, tma), n)

ASSUME Additive ==
  \A d \in {0, 7, 8, 15, 1000, 1023, 65535, 40000}, tac \in 0..7, tima \in {0, 3, 255}, tma \in {0, 251, 255},
     a \in {0, 1, 4, 12, 16, 1020, 4096, 70224}, b \in {1, 3, 4, 20, 64, 1024, 65536, 100000} :
    LET t == T(d, tac, tima, tma)
        ra == Run(t, a)
        rb == Run(ra.t, b)
        rr == Run(t, a + b)
    IN rb.t = rr.t /\ ((ra.irq \/ rb.irq) <=> rr.irq)

\* DIV is bits 8-15 of the elapsed clocks since it was cleared, whatever TAC does
ASSUME DivLaw ==
  \A n \in {0, 1, 255, 256, 257, 65535, 65536, 70224, 1000000}, tac \in 0..7 :
    ReadDIV(Run(T(0, tac, 0, 0), n).t) = (n \div 256) % 256

\* TIMA period: from an aligned divider, exactly one increment per period
ASSUME PeriodLaw ==
  \A tac \in 4..7, m \in 1..5 :
    /\ Run(T(0, tac, 0, 0), m * Period(tac)).t.tima = m
    /\ Run(T(0, tac, 0, 0), m * Period(tac) - 1).t.tima = m - 1
    /\ Period(tac) \in {1024, 16, 64, 256}

\* the TAC-write edge
ASSUME TacEdge ==
  /\ WriteTAC(T(8, 5, 0, 0), 6).t.tima = 1        \* bit 3 high, new selection bit 5 low
  /\ WriteTAC(T(63, 6, 0, 0), 2).t.tima = 1       \* disabling while bit 5 is high
  /\ WriteTAC(T(8, 5, 255, 77), 4) = [t |-> T(8, 4, 77, 77), irq |-> TRUE]
  /\ WriteTAC(T(8, 1, 0, 0), 5).t.tima = 0        \* enabling is a rising edge
  /\ WriteTAC(T(0, 5, 0, 0), 6).t.tima = 0
=============================================================================
