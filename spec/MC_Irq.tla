------------------------------- MODULE MC_Irq -------------------------------
(***************************************************************************)
(* Model checking of interrupt dispatch (C07): every combination of        *)
(* IF x IE x master enable x run state x stack-pointer class x PC class is *)
(* an initial state; the only action is the dispatch check.  The clauses   *)
(* of the property are stated independently of the definition of Dispatch. *)
(***************************************************************************)
EXTENDS Irq, TLC

CONSTANTS SPs, PCs
VARIABLES c, done, wr, cyc
vars == <<c, done, wr, cyc>>
Imes == {"Enabled", "Disabled", "EnableNext"}
Runs == {"Run", "Halt", "Stop"}

Init == /\ c \in [pc : PCs, sp : SPs, ime : Imes, run : Runs, iflag : 0..31, ie : 0..31]
        /\ done = FALSE /\ wr = << >> /\ cyc = 0
Check == ~done /\ done' = TRUE /\ LET r == Dispatch(c) IN c' = r.c /\ wr' = r.wr /\ cyc' = r.cyc
Next == Check
Spec == Init /\ [][Next]_vars

\* does a push at sp-1 / sp-2 touch IF or IE?
Plain(x) == {W16(x.sp - 1), W16(x.sp - 2)} \cap {IF_ADDR, IE_ADDR} = {}
Highest(v) == CHOOSE b \in 0..4 : Bit(v, b) = 1 /\ \A j \in 0..4 : (j < b => Bit(v, j) = 0)

\* nothing pending: nothing changes at all
Quiet == [][(c.iflag & c.ie) = 0 => (c' = c /\ wr' = << >> /\ cyc' = 0)]_vars
\* pending: a halted or stopped CPU resumes
Wake == [][(c.iflag & c.ie) # 0 => c'.run = "Run"]_vars
\* master enable off: apart from waking up, nothing changes
MasterOff == [][((c.iflag & c.ie) # 0 /\ c.ime # "Enabled") =>
                  (c' = [c EXCEPT !.run = "Run"] /\ wr' = << >> /\ cyc' = 0)]_vars
\* master enable on: enable cleared, PC pushed high byte first, five cycles
Entry == [][((c.iflag & c.ie) # 0 /\ c.ime = "Enabled") =>
              /\ c'.ime = "Disabled" /\ cyc' = 5 /\ c'.sp = (c.sp - 2) % 65536
              /\ wr' = << <<(c.sp - 1) % 65536, c.pc \div 256>>, <<(c.sp - 2) % 65536, c.pc % 256>> >>
              /\ c'.pc \in {0, 64, 72, 80, 88, 96}]_vars
\* pushes that do not touch IF/IE: highest-priority source, only its IF bit cleared, IE untouched
Priority == [][((c.iflag & c.ie) # 0 /\ c.ime = "Enabled" /\ Plain(c)) =>
                 LET b == Highest(c.iflag & c.ie) IN
                 /\ c'.pc = 64 + 8 * b /\ c'.iflag = c.iflag - Pow2(b) /\ c'.ie = c.ie]_vars
\* cancellation: PC = 0 exactly when the high-byte push removed every pending source; then no IF bit is cleared
Cancel == [][((c.iflag & c.ie) # 0 /\ c.ime = "Enabled") =>
               /\ (c'.pc = 0) <=> ((W16(c.sp - 1) = IE_ADDR /\ (c.iflag & (Hi(c.pc) % 32)) = 0)
                                   \/ (W16(c.sp - 1) = IF_ADDR /\ ((Hi(c.pc) % 32) & c.ie) = 0))
               /\ (c'.pc = 0 /\ W16(c.sp - 2) # IF_ADDR /\ W16(c.sp - 1) # IF_ADDR) => c'.iflag = c.iflag]_vars
=============================================================================
