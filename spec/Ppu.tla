---------------------------------- MODULE Ppu ----------------------------------
(***************************************************************************)
(* Reference composition of a frame from video RAM, OAM and the LCD        *)
(* registers, held constant over the frame (C15).                          *)
(*                                                                         *)
(* scene = [vram : 8192 bytes (index 0 = 0x8000), oam : 160 bytes,         *)
(*          lcdc, scx, scy, wx, wy, bgp, obp0, obp1 : bytes]               *)
(* (sequences are 1-based: byte at offset k is seq[k + 1])                 *)
(* LCDC bits 0 (BG) and 7 (LCD) are assumed set.                           *)
(* Shade(c) of palette index c: 255, 170, 85, 0.                           *)
(***************************************************************************)
EXTENDS Bits, Sequences, FiniteSets

V(sc, off) == sc.vram[off + 1]
O(sc, off) == sc.oam[off + 1]
Shades == <<255, 170, 85, 0>>
PalShade(pal, c) == Shades[((pal \div Pow2(2 * c)) % 4) + 1]

\* colour index (0..3) of pixel column col (0 = leftmost) of the tile row stored at byte offset off
RowColour(sc, off, col) == 2 * Bit(V(sc, off + 1), 7 - col) + Bit(V(sc, off), 7 - col)

\* background / window tile data offset for tile number i
TileData(sc, i) == IF Bit(sc.lcdc, 4) = 1 THEN 16 * i ELSE 4096 + 16 * Sx8(i)

\* the window covers pixel (x, y)
InWindow(sc, x, y) == Bit(sc.lcdc, 5) = 1 /\ y >= sc.wy /\ x + 7 >= sc.wx

\* colour index of the background / window layer at (x, y)
BgColour(sc, x, y) ==
  LET win == InWindow(sc, x, y)
      u == IF win THEN x + 7 - sc.wx ELSE (x + sc.scx) % 256
      v == IF win THEN y - sc.wy ELSE (y + sc.scy) % 256
      map == IF win THEN Bit(sc.lcdc, 6) ELSE Bit(sc.lcdc, 3)
      i == V(sc, 6144 + 1024 * map + 32 * (v \div 8) + (u \div 8))
  IN RowColour(sc, TileData(sc, i) + 2 * (v % 8), u % 8)

(* ---- objects ------------------------------------------------------------- *)
ObjHeight(sc) == IF Bit(sc.lcdc, 2) = 1 THEN 16 ELSE 8
ObjY(sc, n) == O(sc, 4 * n)
ObjX(sc, n) == O(sc, 4 * n + 1)
ObjTile(sc, n) == O(sc, 4 * n + 2)
ObjAttr(sc, n) == O(sc, 4 * n + 3)
OnLine(sc, n, y) == LET r == y + 16 - ObjY(sc, n) IN r >= 0 /\ r < ObjHeight(sc)
\* the objects of line y: the first ten in OAM order that overlap the line (whatever their X)
RECURSIVE FirstTen(_, _, _, _)
FirstTen(sc, y, n, acc) == IF n = 40 \/ Len(acc) = 10 THEN acc
                           ELSE FirstTen(sc, y, n + 1, IF OnLine(sc, n, y) THEN Append(acc, n) ELSE acc)
LineObjects(sc, y) == IF Bit(sc.lcdc, 1) = 1 THEN FirstTen(sc, y, 0, << >>) ELSE << >>
\* colour index of object n at screen pixel (x, y), 0 if it does not cover the pixel
ObjColour(sc, n, x, y) ==
  LET k == x + 8 - ObjX(sc, n) IN
  IF k < 0 \/ k > 7 THEN 0
  ELSE LET h == ObjHeight(sc)
           r0 == y + 16 - ObjY(sc, n)
           r == IF Bit(ObjAttr(sc, n), 6) = 1 THEN h - 1 - r0 ELSE r0
           t == IF h = 16 THEN ObjTile(sc, n) - (ObjTile(sc, n) % 2) ELSE ObjTile(sc, n)    \* 8x16: bit 0 ignored
           col == IF Bit(ObjAttr(sc, n), 5) = 1 THEN 7 - k ELSE k
       IN RowColour(sc, 16 * t + 2 * r, col)

\* shade of pixel (x, y) given the line's objects
PixelWith(sc, x, y, objs) ==
  LET c == BgColour(sc, x, y)
      cand == {i \in 1..Len(objs) : ObjColour(sc, objs[i], x, y) # 0}
  IN IF cand = {} THEN PalShade(sc.bgp, c)
     ELSE LET w == CHOOSE i \in cand : \A j \in cand :                      \* lowest X, then lowest OAM index
                     ObjX(sc, objs[i]) < ObjX(sc, objs[j]) \/ (ObjX(sc, objs[i]) = ObjX(sc, objs[j]) /\ i <= j)
              n == objs[w]
          IN IF Bit(ObjAttr(sc, n), 7) = 1 /\ c # 0 THEN PalShade(sc.bgp, c)          \* BG over OBJ
             ELSE PalShade(IF Bit(ObjAttr(sc, n), 4) = 1 THEN sc.obp1 ELSE sc.obp0, ObjColour(sc, n, x, y))
Pixel(sc, x, y) == PixelWith(sc, x, y, LineObjects(sc, y))

\* the frame as a flat sequence, row by row
Frame(sc) == LET lines == [y \in 0..143 |-> LET objs == LineObjects(sc, y) IN [x \in 0..159 |-> PixelWith(sc, x, y, objs)]]
             IN [k \in 1..23040 |-> lines[(k - 1) \div 160][(k - 1) % 160]]
=============================================================================
