------------------------------- MODULE MC_Cart -------------------------------
(***************************************************************************)
(* Model checking of the cartridge controllers (C12, and the index bounds  *)
(* of C11): from every supported (type, ROM size, RAM size) the controller *)
(* registers are driven by arbitrary writes to 0x0000-0x7FFF drawn from an *)
(* address lattice (all four register windows, both ends) and a value      *)
(* lattice; the laws of the protocol are invariants of every reachable     *)
(* register state.                                                         *)
(***************************************************************************)
EXTENDS Cart, TLC

CONSTANTS Types, RomCodes, RamCodes, Addrs, Vals
VARIABLES cart, last       \* last = <<address, value>> of the last write
vars == <<cart, last>>

Init == \E t \in Types, rc \in RomCodes, mc \in RamCodes : cart = NewCart(t, rc, mc) /\ last = <<0, 0>>
Write == \E a \in Addrs, v \in Vals : cart' = MbcWrite(cart, a, v) /\ last' = <<a, v>>
Next == Write
Spec == Init /\ [][Next]_vars

TypeOK == /\ cart.kind \in {"rom", "mbc1", "mbc3"}
          /\ cart.rom \in 0..127 /\ cart.hi \in 0..3 /\ cart.mode \in 0..1 /\ cart.ramEn \in BOOLEAN
\* the physical indices every access computes stay inside the cartridge (C11)
InBounds == /\ \A a \in {0, 16383, 16384, 32767} : RomIndex(cart, a) < 16384 * cart.romBanks
            /\ HasRam(cart) => \A a \in {40960, 43007, 43008, 49151} : RamIndex(cart, a) < cart.ramBytes
\* 0x0000-0x3FFF always shows bank 0
Bank0Fixed == \A a \in {0, 1, 16383} : RomIndex(cart, a) = a
\* ROM-only cartridges ignore all writes
RomOnlyInert == cart.kind = "rom" => (RomBank(cart) = 1 % cart.romBanks /\ RamBank(cart) = 0 /\ cart.rom = 1 /\ cart.hi = 0)
\* masking and the 0 -> 1 translation
Masking == /\ cart.kind = "mbc1" => cart.rom \in 0..31
           /\ SelectedRomBank(cart) # 0
           /\ cart.kind = "mbc1" => (SelectedRomBank(cart) \in 1..127 /\ SelectedRomBank(cart) % 32 # 0)   \* 0x20/0x40/0x60 unreachable
           /\ cart.kind = "mbc3" => SelectedRomBank(cart) \in 1..127
\* MBC1 mode select: the upper bits go to exactly one of the two bank numbers
ModeSelect == cart.kind = "mbc1" =>
                /\ (cart.mode = 0 => (SelectedRamBank(cart) = 0 /\ SelectedRomBank(cart) \div 32 = cart.hi))
                /\ (cart.mode = 1 => (SelectedRamBank(cart) = cart.hi /\ SelectedRomBank(cart) < 32))
\* the effect of a write is confined to the register of the window it falls in
Windows == [][LET a == last'[1] IN
               /\ (a >= 8192 => cart'.ramEn = cart.ramEn)
               /\ ((a < 8192 \/ a >= 16384) => cart'.rom = cart.rom)
               /\ ((a < 16384 \/ a >= 24576) => cart'.hi = cart.hi)
               /\ (a < 24576 => cart'.mode = cart.mode)]_vars
=============================================================================
