SPECIFICATION Spec
CONSTANTS
  Scenes = {1, 2, 3, 4, 5, 6, 7, 8}
INVARIANT ShadeOK
INVARIANT SelectionLaw
INVARIANT BackgroundLaw
INVARIANT PriorityLaw
INVARIANT OffscreenLaw
CHECK_DEADLOCK FALSE
