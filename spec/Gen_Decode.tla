------------------------------ MODULE Gen_Decode ------------------------------
(***************************************************************************)
(* spec -> impl for C06: the decode table of SM83.tla for all 512          *)
(* first-byte / CB-byte encodings: defined, length, M-cycles for each of   *)
(* the 16 flag states (so both outcomes of every conditional), block end.  *)
(***************************************************************************)
EXTENDS SM83, TLC, IOUtils, Json, FiniteSets

OutFile == IF "OUT" \in DOMAIN IOEnv THEN IOEnv.OUT ELSE "/tmp/gen_decode.json"

CondOf(op) ==   \* condition code tested by the instruction, -1 if unconditional
  LET x == op \div 64  y == (op \div 8) % 8  z == op % 8 IN
  IF x = 0 /\ z = 0 /\ y >= 4 THEN y - 4
  ELSE IF x = 3 /\ z \in {0, 2, 4} /\ y < 4 THEN y
  ELSE -1
CycFor(op, cb, f) ==
  IF CondOf(op) = -1 THEN Cyc(op, cb)
  ELSE IF Cond([f |-> f], CondOf(op)) THEN CycTaken(op, cb) ELSE Cyc(op, cb)

Row(op, cb) ==
  [op |-> op, cb |-> cb, defined |-> op \notin Undefined, len |-> ILen(op), blockEnd |-> IsBlockEnd(op),
   cond |-> CondOf(op),
   cyc |-> IF op \in Undefined THEN [i \in 1..16 |-> 0] ELSE [i \in 1..16 |-> CycFor(op, cb, 16 * (i - 1))]]

Rows == [i \in 1..512 |-> IF i <= 256 THEN Row(i - 1, IF i - 1 = 203 THEN 0 ELSE -1) ELSE Row(203, i - 257)]

\* sanity theorems of the table itself
ASSUME Cardinality({op \in 0..255 : op \in Undefined}) = 11
ASSUME \A op \in 0..255 : ILen(op) \in 1..3
ASSUME \A cb \in 0..255 : Cyc(203, cb) = (IF cb % 8 # 6 THEN 2 ELSE IF cb \div 64 = 1 THEN 3 ELSE 4)
ASSUME \A op \in (0..255) \ Undefined : (Cyc(op, 0) >= 1 /\ CycTaken(op, 0) >= Cyc(op, 0) /\ CycTaken(op, 0) <= 6)
ASSUME Cardinality({op \in (0..255) \ Undefined : IsBlockEnd(op)}) = 4 + 5 + 6 + 1 + 5 + 5 + 8   \* STOP HALT DI EI; JR, JR cc; RET cc, RET, RETI; JP HL; JP, JP cc; CALL, CALL cc; RST
ASSUME JsonSerialize(OutFile, Rows)
ASSUME PrintT(<<"GEN_DECODE", 512>>)
=============================================================================
