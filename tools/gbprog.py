"""Guest program and scenario generators (Python side of the drivers).
A scenario is what `gbv machine` executes: ROM chunks, initial CPU state,
bus writes to perform first, number of emulator steps, external events."""
import json, random, itertools

def cpu(a=0, f=0, b=0, c=0, d=0, e=0, h=0, l=0, sp=0xdff0, pc=0x100):
    return {"a": a, "f": f, "b": b, "c": c, "d": d, "e": e, "h": h, "l": l, "sp": sp, "pc": pc}

def scenario(sid, chunks, regs, steps, mode="update", ime="Disabled", init_writes=(), ext=(), cart=(0, 0, 0), romfill=0xFF):
    return {"id": sid, "cart": list(cart), "romfill": romfill, "rom": [[base, list(bs)] for base, bs in chunks],
            "cpu": regs, "ime": ime, "mode": mode, "steps": steps,
            "init_writes": [list(w) for w in init_writes], "ext": [list(e) for e in ext]}

def write_scenarios(path, scs):
    with open(path, "w") as f:
        for s in scs:
            f.write(json.dumps(s, separators=(",", ":")) + "\n")

# ------------------------------------------------------------------ C08
# alphabet of the interrupt-control sequences
EI, DI, RETI, HALT, STOP, NOP, REQ, WIE = "EI", "DI", "RETI", "HALT", "STOP", "NOP", "REQ", "WIE"
ALPHABET = [EI, DI, RETI, HALT, STOP, NOP, REQ, WIE]
ENC = {EI: [0xFB], DI: [0xF3], RETI: [0xD9], HALT: [0x76], STOP: [0x10, 0x00], NOP: [0x00],
       REQ: [0x70],      # LD (HL),B with HL = 0xFF0F: IF := B
       WIE: [0x12]}      # LD (DE),A with DE = 0xFFFF: IE := A
HANDLERS = {"reti": [0xD9], "ret": [0xC9], "nop_reti": [0x00, 0xD9], "ei_ret": [0xFB, 0xC9], "di_halt": [0xF3, 0x76]}

# STOP is a two-byte instruction whatever its second byte holds (0x00 by convention): the byte is skipped, never executed
STOP_OPERANDS = [0x00, 0x00, 0x3C, 0x04, 0xFB, 0x76, 0xD9]

def c08_scenario(sid, seq, ime, if0, ie0, breq, aie, handler, base=0x150, extra_steps=6, devices=(), ext=(), p1=False):
    code = []
    reti_returns = []
    for k, sym in enumerate(seq):
        code += ENC[sym] if sym != STOP else [0x10, STOP_OPERANDS[(sid + k) % len(STOP_OPERANDS)]]
        if sym == RETI:
            reti_returns.append(base + len(code))
    code += [0x00, 0x00, 0x18, 0xFE]            # NOP NOP JR -2
    chunks = [(0x40 + 8 * b, HANDLERS[handler]) for b in range(5)] + [(base, code)]
    sp = 0xDF00
    iw = []
    for i, ret in enumerate(reti_returns):       # the words main-line RETIs will pop
        iw.append((sp + 2 * i, ret & 0xFF)); iw.append((sp + 2 * i + 1, ret >> 8))
    iw.append((0xFF0F, if0)); iw.append((0xFFFF, ie0))
    # (with p1 the REQ symbol writes B to P1 instead of IF: a change of selection while keys are held is a request too)
    regs = cpu(a=aie, b=breq, d=0xFF, e=0xFF, h=0xFF, l=0x00 if p1 else 0x0F, sp=sp, pc=base)
    iw += list(devices)
    # halted/stopped CPUs need update() calls to tick; allow some
    return scenario(sid, chunks, regs, len(seq) + extra_steps, mode="update", ime=ime, init_writes=iw, ext=ext)

def c08_all(maxlen, rng):
    """Every sequence of length 1..maxlen over the alphabet, each with a deterministic rotation of
    initial master enable / pending state / handler shape (so that all combinations occur)."""
    out = []
    sid = 0
    inits = list(itertools.product(["Disabled", "Enabled"], [(0, 0), (4, 4), (1, 5), (0, 4)], ["reti", "ret", "ei_ret", "nop_reti"]))
    for n in range(1, maxlen + 1):
        for seq in itertools.product(ALPHABET, repeat=n):
            ime, (if0, ie0), h = inits[sid % len(inits)]
            breq = [0x04, 0x01, 0x14][sid % 3]
            aie = [0x04, 0x1F, 0x00, 0x01][(sid // 3) % 4]
            out.append(c08_scenario(sid, seq, ime, if0, ie0, breq, aie, h))
            sid += 1
    return out

def c08_random(n, maxlen, rng, start_id=1000000):
    out = []
    for i in range(n):
        ln = rng.randint(3, maxlen)
        seq = [rng.choice(ALPHABET) for _ in range(ln)]
        extra = rng.randint(4, 30)
        devices, ext = [], []
        kind = i % 3
        if kind == 1:
            # a request that arrives from a device while the CPU is suspended: a fast timer about to overflow
            devices = [(0xFF06, rng.choice([0xF0, 0xFE, 0x00])), (0xFF05, rng.choice([0xFA, 0xFE, 0xFF])), (0xFF07, rng.choice([5, 5, 6]))]
            extra += 20
        elif kind == 2:
            # keys held (or pressed later) with their group selected: HALT / STOP suspend whatever the key lines show,
            # and a line that falls during the suspension is a request like any other
            devices = [(0xFF00, rng.choice([0x10, 0x20, 0x00]))]
            ext = [(rng.choice([0, 0, rng.randrange(ln + extra)]), rng.choice(["press", "press", "release"]), rng.randrange(8)) for _ in range(rng.randint(1, 4))]
        out.append(c08_scenario(start_id + i, seq, rng.choice(["Disabled", "Enabled", "EnableNext"]),
                                rng.choice([0, 1, 4, 0x1F, 0x10]), rng.choice([0, 4, 5, 0x1F] if kind != 2 else [0x10, 0x1F, 0x14, 0]),
                                rng.choice([0, 1, 4, 0x14, 0x1F] if kind != 2 else [0x10, 0x20, 0x30, 0x00, 0x14]), rng.choice([0, 1, 4, 5, 0x1F] if kind != 2 else [0x10, 0x1F, 0x11]),
                                rng.choice(list(HANDLERS)), extra_steps=extra, devices=devices, ext=ext, p1=(kind == 2 and i % 2 == 0)))
    return out


# ------------------------------------------------------- structured programs
class Asm:
    """Tiny assembler: byte emission at an origin with labels and fix-ups."""
    def __init__(self, org):
        self.org = org; self.b = []; self.labels = {}; self.fix = []
    def here(self): return self.org + len(self.b)
    def label(self, name): self.labels[name] = self.here()
    def emit(self, *bs):
        for x in bs: self.b.append(x & 0xFF)
    def word(self, w): self.emit(w & 0xFF, w >> 8)
    def jp(self, op, target):          # 3-byte absolute (JP/CALL)
        self.emit(op); self.fix.append((len(self.b), target, "abs")); self.emit(0, 0)
    def jr(self, op, target):
        self.emit(op); self.fix.append((len(self.b), target, "rel")); self.emit(0)
    def resolve(self, extra=None):
        lab = dict(self.labels); lab.update(extra or {})
        for pos, t, kind in self.fix:
            addr = lab[t] if isinstance(t, str) else t
            if kind == "abs":
                self.b[pos] = addr & 0xFF; self.b[pos + 1] = addr >> 8
            else:
                d = addr - (self.org + pos + 1)
                assert -128 <= d <= 127, "jr out of range"
                self.b[pos] = d & 0xFF
        return self.b

R8 = [0, 1, 2, 3, 4, 5, 7]          # B C D E H L A (6 = (HL) excluded)

def alu_op(rng, keep_hl=False):
    k = rng.randrange(12)
    dst = [r for r in R8 if not (keep_hl and r in (4, 5))]
    if k == 0:  return [0x40 + 8 * rng.choice(dst) + rng.choice(R8)]
    if k == 1:  return [0x06 + 8 * rng.choice(dst), rng.randrange(256)]
    if k in (2, 3):  return [0x80 + 8 * rng.randrange(8) + rng.choice(R8)]
    if k == 4:  return [0xC6 + 8 * rng.randrange(8), rng.randrange(256)]
    if k == 5:  return [0x04 + 8 * rng.choice(dst) + rng.randrange(2)]
    if k == 6:  return [rng.choice([0x03, 0x0B, 0x13, 0x1B] + ([] if keep_hl else [0x23, 0x2B]))]
    if k == 7:  return [rng.choice([0x07, 0x0F, 0x17, 0x1F, 0x27, 0x2F, 0x37, 0x3F])]
    if k == 8:
        r = rng.choice(dst if rng.randrange(4) else R8)
        grp = rng.randrange(4)
        if grp == 1: r = rng.choice(R8)            # BIT does not write
        return [0xCB, 64 * grp + 8 * rng.randrange(8) + r]
    if k == 9 and not keep_hl:  return [rng.choice([0x09, 0x19, 0x29])]
    if k == 10: return [0x00]
    return [0x3E, rng.randrange(256)]

def structured_program(sid, rng, mbc=None, steps=None):
    """One multi-block program exercising loops, calls, interrupts, HALT, DMA, RAM code, banks, serial."""
    cart = (0, 0, 2)
    if mbc is None: mbc = rng.choice([None, None, 1, 0x13])
    if mbc == 1: cart = (rng.choice([1, 3]), 2, 3)
    if mbc == 0x13: cart = (rng.choice([0x11, 0x13]), 3, 3)
    if mbc == 0x33: cart = (0x13, 5, 3)            # 64 banks: bank numbers that differ by 32 hold different code
    if mbc == 0x52: cart = (0x13, 0x52, 3)         # 72 banks: a size that is not a power of two
    if mbc == 0x106: cart = (rng.choice([1, 3]), 6, 3)   # MBC1 with 128 banks: upper bank bits and the mode register matter
    banks = {0: 2, 2: 8, 3: 16, 5: 64, 6: 128, 0x52: 72}[cart[1]]
    chunks = []
    counter = [0xC100, 0xC101, 0xC102, 0xFF90, 0xFF91]
    # interrupt handlers
    for b in range(5):
        h = Asm(0x40 + 8 * b)
        style = rng.randrange(4)
        if style == 0:
            h.emit(0xD9)                                             # RETI
        elif style == 1:
            h.emit(0xF5, 0xFA); h.word(counter[b]); h.emit(0x3C, 0xEA); h.word(counter[b]); h.emit(0xF1, 0xD9)
            # PUSH AF; LD A,(nn); INC A; LD (nn),A; POP AF; RETI  -- 11 bytes: spills into the next vector for b<4
            if b < 4: h.b = h.b[:0]; h.emit(0xD9)
        elif style == 2:
            h.emit(0xFB, 0xC9)                                       # EI; RET
        else:
            h.emit(0x04, 0xD9)                                       # INC B; RETI
        chunks.append((h.org, h.resolve()))
    a = Asm(0x150)
    sp = rng.choice([0xDFF0, 0xFFFE, 0xCFFF, 0xD002])
    a.emit(0xF3, 0x31); a.word(sp)
    def ldh(reg, val): a.emit(0x3E, val, 0xE0, reg)
    tac = rng.choice([0, 4, 5, 6, 7, 5, 5])
    ldh(0x06, rng.choice([0, 0xF0, 0xFE, 0x80])); ldh(0x05, rng.choice([0, 0xF8, 0xFF])); ldh(0x07, tac)
    ldh(0x41, rng.choice([0, 0x08, 0x20, 0x40, 0x78])); ldh(0x45, rng.choice([0, 1, 144, 153, 10]))
    ldh(0x0F, 0); ldh(0xFF, rng.choice([0x01, 0x05, 0x07, 0x1F, 0x04]) | 1)
    if rng.randrange(4): a.emit(0xFB)
    subs = []          # (label, body bytes)
    nsnip = rng.randint(4, 14)
    for si in range(nsnip):
        k = rng.randrange(15)
        if mbc and rng.randrange(3) == 0: k = 8
        if k == 0:
            for _ in range(rng.randint(1, 8)): a.emit(*alu_op(rng))
        elif k == 1:                                                  # counted loop
            a.emit(0x06, rng.randint(1, 6)); lab = "L%d" % si; a.label(lab)
            for _ in range(rng.randint(1, 4)): a.emit(*[x for x in alu_op(rng) if True] if False else alu_safe_b(rng))
            a.emit(0x05); a.jr(0x20, lab)
        elif k == 2:                                                  # call a subroutine
            lab = "S%d" % si; a.jp(rng.choice([0xCD, 0xCD, 0xC4, 0xCC, 0xD4, 0xDC]), lab)
            body = []
            for _ in range(rng.randint(0, 5)): body += alu_op(rng)
            subs.append((lab, body + [rng.choice([0xC9, 0xC9, 0xC0, 0xC8]), 0xC9]))
        elif k == 3:                                                  # memory traffic through HL and the stack
            a.emit(0x21); a.word(rng.choice([0xC000, 0xC800, 0xD000, 0xDFF8, 0xFF80, 0xFFA0, 0x8000, 0x9FF0, 0xFE00, 0xFE90, 0xA000, 0xBFF0, 0xE000,
                                             0xFF04, 0xFF41, 0xFF45, 0xFF02, 0xFF0F, 0xFF05]))     # registers where a store has an effect even if it changes nothing
            for _ in range(rng.randint(1, 6)):
                a.emit(rng.choice([0x77, 0x22, 0x32, 0x7E, 0x2A, 0x3A, 0x34, 0x35, 0x36, 0x86, 0xAE, 0xBE, 0x46, 0x70]))
                if a.b[-1] == 0x36: a.emit(rng.randrange(256))
                if rng.randrange(3) == 0: a.emit(0xCB, rng.choice([0x06, 0x16, 0x26, 0x36, 0x46, 0x7E, 0x86, 0xC6, 0xFE, 0x3E]))
        elif k == 4:
            a.emit(rng.choice([0xC5, 0xD5, 0xE5, 0xF5])); 
            for _ in range(rng.randint(0, 3)): a.emit(*alu_op(rng))
            a.emit(rng.choice([0xC1, 0xD1, 0xE1, 0xF1]))
        elif k == 5:                                                  # wait for an interrupt
            a.emit(0x76, 0x00)
        elif k == 6:                                                  # OAM DMA through a routine in high RAM
            rt = [0x3E, rng.choice([0xC0, 0xC1, 0x80, 0xD0, 0x00, 0x40, 0xFE, 0xA0]), 0xE0, 0x46, 0x3E, rng.choice([40, 10, 3]), 0x3D, 0x20, 0xFD, 0xC9]
            a.emit(0x21); a.word(0xFF80)
            for x in rt: a.emit(0x36, x, 0x23)
            a.emit(0xCD); a.word(0xFF80)
        elif k == 7:                                                  # code executed from work RAM
            body = []
            for _ in range(rng.randint(1, 4)): body += alu_op(rng, keep_hl=True)
            body += [0xC9]
            dst = rng.choice([0xC200, 0xD300, 0xCFD0])
            a.emit(0x21); a.word(dst)
            for x in body: a.emit(0x36, x, 0x23)
            a.emit(0xCD); a.word(dst)
        elif k == 8 and mbc:                                          # bank switch and call into the bank
            bank = rng.randrange(1, banks) if banks <= 16 else (rng.choice([1, 33, 2, 34, 1, 33, 17, 49]) if banks == 64 else rng.choice([1, 9, 2, 40, 64, 71, 8, 63]))
            if banks <= 16 and rng.randrange(4) == 0:
                bank = banks * rng.choice([1, 1, 3]) % (32 if cart[0] < 4 else 128) or banks   # a multiple of the bank count: the mirror of bank 0
            if mbc == 0x106:
                # MBC1, 128 banks: the low five bits, the upper two bits and the mode register, written in any order and
                # not always all three (the bank that results depends on what the earlier snippets left behind)
                ws = [(0x2000, rng.choice([0, 1, 2, 0x1F, 0x20, 0x21])), (0x4000, rng.randrange(4)), (0x6000, rng.randrange(2))]
                rng.shuffle(ws)
                for addr, v in ws[:rng.randint(1, 3)]:
                    a.emit(0x3E, v, 0xEA); a.word(addr + rng.choice([0, 0x1FFF, 0x100]))
            else:
                a.emit(0x3E, bank, 0xEA); a.word(rng.choice([0x2000, 0x2100, 0x3FFF]))
            if rng.randrange(3) == 0:
                # code in the fixed bank reads the switchable bank as data: LD A,(slot + 1) -> the bank's own number
                a.emit(0xFA); a.word(0x4001 + 16 * rng.randrange(4)); a.emit(0xEA); a.word(0xC120 + rng.randrange(8))
            a.emit(0xCD); a.word(0x4000 + 16 * rng.randrange(4))
        elif k == 9:                                                  # serial output
            a.emit(0x3E, rng.randrange(256), 0xE0, 0x01, 0x3E, rng.choice([0x81, 0x80, 0x01, 0xFF, 0x00]), 0xE0, 0x02)
        elif k == 10:                                                 # read device registers into memory
            for reg in rng.sample([0x04, 0x05, 0x0F, 0x44, 0x41, 0x00, 0xFF, 0x07], 3):
                a.emit(0xF0, reg, 0xEA); a.word(0xC110 + reg % 16)
        elif k in (13, 14):                                           # the same block run repeatedly while what it reads changes
            a.emit(0x06, rng.randint(2, 5)); a.emit(0x21); a.word(rng.choice([0xC140, 0xC180, 0xFFB0])); lab = "R%d" % si; a.label(lab)
            src = rng.randrange(4)
            if src == 0:   a.emit(0xF0, rng.choice([0x04, 0x05, 0x44, 0x41, 0x0F]))           # a device register
            elif src == 1: a.emit(0xFA); a.word(rng.choice([0xC140, 0xC141, 0xFFB0]))          # a cell the loop itself rewrites
            elif src == 2: a.emit(0xFA); a.word(rng.choice([0x0150, 0x0104, 0x3FFF, 0x4000, 0x4001, 0x7FFF]))   # ROM as data
            else:          a.emit(0xF0, 0x00)                                                  # the joypad
            a.emit(0x80, 0x22)                                                                 # ADD A,B ; LD (HL+),A
            a.emit(0x05); a.jr(0x20, lab)
        elif k == 11:                                                 # conditional forward branch
            lab = "F%d" % si
            if rng.randrange(2): a.jr(rng.choice([0x20, 0x28, 0x30, 0x38, 0x18]), lab)
            else: a.jp(rng.choice([0xC2, 0xCA, 0xD2, 0xDA, 0xC3]), lab)
            for _ in range(rng.randint(1, 3)): a.emit(*alu_op(rng))
            a.label(lab)
        else:
            a.emit(rng.choice([0xFB, 0xF3, 0xFB]))
    a.label("END")
    endstyle = rng.randrange(3)
    if endstyle == 0: a.emit(0x76, 0x00); a.jr(0x18, "END")
    elif endstyle == 1: a.jr(0x18, "END")
    else: a.emit(0x04); a.jp(0xC3, "END")
    for lab, body in subs:
        a.label(lab); a.emit(*body)
    chunks.append((0x100, [0x00, 0xC3, 0x50, 0x01]))
    chunks.append((a.org, a.resolve()))
    if mbc:
        # (bank 0's own first 64 bytes hold slots too: a bank number that is a multiple of the bank count maps them at 0x4000)
        for bank in range(0, banks):
            for slot in range(4):
                body = [0x3E, bank, 0x06, slot]
                for _ in range(rng.randint(0, 3)): body += alu_op(rng)
                body = (body + [0xC9])[:15] + [0xC9]
                chunks.append((bank * 0x4000 + 16 * slot, body))
    if steps is None: steps = rng.choice([150, 400, 1200])
    return scenario(sid, chunks, cpu(a=1, f=0xB0, c=0x13, e=0xD8, h=1, l=0x4D, sp=0xFFFE, pc=0x100), steps, cart=cart)

def alu_safe_b(rng):
    """ALU op that leaves the loop counter B alone."""
    while True:
        op = alu_op(rng)
        o = op[0]
        if o in (0x03, 0x0B, 0x04, 0x05, 0x06): continue
        if 0x40 <= o <= 0x47: continue
        if o == 0xCB and (op[1] % 8) == 0 and (op[1] // 64) != 1: continue
        return op

def structured_programs(n, rng, start_id=2000000, mbc=None, steps=None):
    return [structured_program(start_id + i, rng, mbc=mbc, steps=steps) for i in range(n)]


def jump_to_next_programs():
    """C06: control transfers whose target is the address of the following instruction (taken or not they end up in the
    same place, but not at the same cost): JP cc / CALL cc to pc+3, JR cc +0, RET cc returning to pc+1, for both outcomes."""
    out = []
    sid = 3200000
    for op in (0xC2, 0xCA, 0xD2, 0xDA, 0xC3, 0xC4, 0xCC, 0xD4, 0xDC, 0xCD, 0x20, 0x28, 0x30, 0x38, 0x18, 0xC0, 0xC8, 0xD0, 0xD8, 0xC9):
        for f in (0x00, 0x80, 0x10, 0x90):
            for base in (0x0150, 0xC800):
                n = 3 if op >= 0xC2 and op not in (0xC0, 0xC8, 0xD0, 0xD8, 0xC9) else (2 if op < 0x40 else 1)
                nxt = base + n
                code = [op] + ([nxt & 0xFF, nxt >> 8] if n == 3 else ([0x00] if n == 2 else []))
                code += [0x00, 0x18, 0xFE]
                iw = [(0xDFEE, nxt & 0xFF), (0xDFEF, nxt >> 8)]          # what a RET pops
                if base >= 0x8000:
                    iw += [(base + i, b) for i, b in enumerate(code)]
                    chunks = [(0x100, [0x00])]
                else:
                    chunks = [(base, code)]
                out.append(scenario(sid, chunks, cpu(pc=base, sp=0xDFEE, f=f), 2, cart=(0, 0, 2), init_writes=iw, romfill=0x00))
                sid += 1
    return out


def serial_flood_programs():
    """C11: hundreds of serial transfers in a row, with and without line feeds among them (whatever buffering the
    device does, no byte count may take it out of bounds)."""
    out = []
    for i, (byte, count) in enumerate([(0x41, 0), (0x0A, 0), (0xFF, 0), (0x00, 200)]):
        a = Asm(0x150)
        a.emit(0x31, 0xF0, 0xDF, 0x06, count)              # LD SP ; LD B,count (0 = 256 rounds)
        a.label("L")
        a.emit(0x3E, byte, 0xE0, 0x01, 0x3E, 0x81, 0xE0, 0x02, 0x3E, byte ^ 0x21, 0xE0, 0x01, 0x3E, 0x80, 0xE0, 0x02)
        a.emit(0x05); a.jr(0x20, "L")
        a.label("E"); a.jr(0x18, "E")
        out.append(scenario(3100000 + i, [(0x100, [0x00, 0xC3, 0x50, 0x01]), (a.org, a.resolve())], cpu(pc=0x100, sp=0xFFFE),
                            2 + 2 * (count or 256) + 4, mode="block", cart=(0, 0, 2), romfill=0))
    return out


def edge_access_programs(rng):
    """C11: word accesses and stack operations at the edges of the address space, as instructions."""
    out = []
    sid = 3000000
    cases = []
    for spv in (0x0000, 0x0001, 0x0002, 0xFFFF, 0xFFFE, 0x8000, 0xA000, 0xA001, 0xC000, 0xFE00, 0xFEA1, 0xFF81):
        cases.append(("push", spv, [0xC5, 0xD5, 0xF5, 0xE5]))
        cases.append(("pop", spv, [0xC1, 0xD1, 0xE1, 0xF1]))
        cases.append(("call", spv, [0xCD, 0x60, 0x01]))       # CALL 0x160
        cases.append(("rst", spv, [0xEF]))
        cases.append(("ret", spv, [0xC9]))
    for a16 in (0xFFFF, 0xFFFE, 0x7FFF, 0x9FFF, 0xBFFF, 0xDFFF, 0xFDFF, 0xFE9F, 0xFEFF, 0xFF7F):
        cases.append(("ldsp", 0xD000, [0x08, a16 & 0xFF, a16 >> 8]))
    for cart in ((0, 0, 0), (1, 1, 1), (0x13, 2, 0), (3, 0, 3)):
        for name, spv, code in cases:
            chunks = [(0x28, [0xC9]), (0x160, [0xC9]), (0x100, code + [0x00, 0x00, 0x18, 0xFE])]
            out.append(scenario(sid, chunks, cpu(a=0x12, b=0x34, c=0x56, d=0x78, e=0x9A, h=0xC1, l=0x00, sp=spv, pc=0x100), 1, cart=cart))
            sid += 1
    return out


# ------------------------------------------------------------ random blocks
UNDEFINED = {0xD3, 0xDB, 0xDD, 0xE3, 0xE4, 0xEB, 0xEC, 0xED, 0xF4, 0xFC, 0xFD}
BLOCK_END = ({0x10, 0x76, 0xF3, 0xFB, 0xC3, 0xE9, 0xCD, 0xC9, 0xD9, 0x18} | {0x20, 0x28, 0x30, 0x38}
             | {0xC0, 0xC8, 0xD0, 0xD8} | {0xC2, 0xCA, 0xD2, 0xDA} | {0xC4, 0xCC, 0xD4, 0xDC}
             | {0xC7 + 8 * i for i in range(8)})

def ilen(op):
    if op == 0xCB or op == 0x10: return 2
    if op in (0x01, 0x11, 0x21, 0x31, 0x08, 0xC3, 0xCD, 0xEA, 0xFA) or op in (0xC2, 0xCA, 0xD2, 0xDA, 0xC4, 0xCC, 0xD4, 0xDC): return 3
    if op in (0x06, 0x0E, 0x16, 0x1E, 0x26, 0x2E, 0x36, 0x3E, 0x18, 0x20, 0x28, 0x30, 0x38, 0xE0, 0xF0, 0xE8, 0xF8,
              0xC6, 0xCE, 0xD6, 0xDE, 0xE6, 0xEE, 0xF6, 0xFE): return 2
    return 1

BODY_OPS = [op for op in range(256) if op not in UNDEFINED and op not in BLOCK_END]
POINTERS = [0x0000, 0x3FFF, 0x4000, 0x7FFF, 0x8000, 0x9FFF, 0xA000, 0xBFFF, 0xC000, 0xCFFF, 0xD000, 0xDFFF, 0xE000, 0xFDFF,
            0xFE00, 0xFE9F, 0xFEA0, 0xFEFF, 0xFF00, 0xFF04, 0xFF05, 0xFF07, 0xFF0F, 0xFF40, 0xFF41, 0xFF44, 0xFF45, 0xFF46,
            0xFF7F, 0xFF80, 0xFFFE, 0xFFFF, 0x0001, 0x0002, 0xC123, 0xD456, 0xFF90]

def rand_instr(rng, op=None):
    if op is None: op = rng.choice(BODY_OPS)
    n = ilen(op)
    if op == 0xCB: return [0xCB, rng.randrange(256)]
    if op in (0xEA, 0xFA, 0x08) and rng.randrange(3):
        a = rng.choice(POINTERS); return [op, a & 0xFF, a >> 8]
    if op in (0xE0, 0xF0) and rng.randrange(2):
        return [op, rng.choice([0x00, 0x01, 0x02, 0x04, 0x05, 0x06, 0x07, 0x0F, 0x40, 0x41, 0x44, 0x45, 0x46, 0x47, 0x80, 0xFE, 0xFF])]
    return [op] + [rng.randrange(256) for _ in range(n - 1)]

NOFLAG_OPS = [0x00, 0x40, 0x41, 0x47, 0x4F, 0x57, 0x5F, 0x67, 0x6F, 0x78, 0x79, 0x06, 0x0E, 0x03, 0x13, 0x0B, 0x01, 0x11, 0xC5, 0xD5, 0xC1, 0xD1]

def filler_prefix(rng):
    out = []
    for _ in range(rng.randint(0, 4)):
        out += rand_instr(rng)
    return out


def template_block(rng):
    """Instruction groups that share hidden state inside one block (the stack, the low nibble of F, the carry chain,
    a read-modify-write cell): each engine may keep that state differently between the instructions."""
    k = rng.randrange(6)
    body = []
    filler = lambda n: [b for _ in range(rng.randint(0, n)) for b in rand_instr(rng, rng.choice(NOFLAG_OPS))]
    if k == 0:   body = [0xF1] + filler(3) + [0xF5] + filler(2) + [0xC1]                       # POP AF ... PUSH AF ; POP BC
    elif k == 1: body = [rng.choice([0xC5, 0xD5, 0xE5, 0xF5])] + filler(2) + [rng.choice([0xC1, 0xD1, 0xE1, 0xF1])]
    elif k == 2: body = [0xF8, rng.randrange(256), 0xF9, 0xE5, 0xE8, rng.randrange(256), 0xD1]  # LD HL,SP+e ; LD SP,HL ; PUSH HL ; ADD SP,e ; POP DE
    elif k == 3:
        op = rng.choice([0x8F, 0x9F, 0x17, 0x1F, 0xCE, 0xDE])
        body = [rng.choice([0x37, 0x3F])] + filler(2) + ([op, rng.randrange(256)] if op in (0xCE, 0xDE) else [op]) + [0x27]
    elif k == 4: body = [0x34, 0xCB, 0x46 + 8 * rng.randrange(8), 0xCB, 0x86 + 8 * rng.randrange(8), 0x35, 0xCB, 0xC6 + 8 * rng.randrange(8), 0x7E]
    else:        body = [0xF1, 0x27, 0xF5, 0xF1, 0x8F, 0xF5]                                   # POP AF ; DAA ; PUSH AF ; POP AF ; ADC A,A ; PUSH AF
    return body


def random_block_scenario(sid, rng, maxlen=32):
    body = []
    if rng.randrange(5) == 0:
        body = filler_prefix(rng) + template_block(rng)
    else:
      for _ in range(rng.randint(0, maxlen - 1)):
        body += rand_instr(rng)
    term = rng.choice(sorted(BLOCK_END))
    tcode = rand_instr(rng, term)
    if term == 0x10: tcode = [0x10, 0x00]
    code = body + tcode
    where = rng.randrange(8)
    L = len(code)
    base = {0: 0x0150, 1: 0x0100, 2: 0x3FFF - L + 1, 3: 0x4000, 4: 0x7FFF - L + 1, 5: 0x4000 - len(body) if body else 0x3000,
            6: 0x0000, 7: rng.randrange(0x200, 0x7000)}[where]
    base = max(0, min(base, 0x8000 - L))
    regs = cpu(a=rng.randrange(256), f=rng.randrange(16) * 16, sp=rng.choice(POINTERS), pc=base)
    cart, phys, bankw = (0, 0, 2), base, []
    if 0x4000 <= base and base + L <= 0x8000 and rng.randrange(3) == 0:
        # the block lives in a high bank of a 72-bank MBC3 cartridge ("at any ROM placement")
        bank = rng.choice([9, 40, 64, 71, 8, 63, 2])
        cart, phys, bankw = (0x11, 0x52, 2), bank * 0x4000 + (base - 0x4000), [(0x2000, bank)]
    for rr in (("b", "c"), ("d", "e"), ("h", "l")):
        v = rng.choice(POINTERS) if rng.randrange(4) else rng.randrange(65536)
        regs[rr[0]] = v >> 8; regs[rr[1]] = v & 0xFF
    iw = [(0xFFFF, rng.choice([0, 0x1F, 0x05])), (0xFF0F, rng.choice([0, 0, 0x04, 0x1F]))]
    if rng.randrange(3) == 0: iw.append((0xFF07, rng.choice([4, 5, 6, 7])))
    # a few data bytes the block may read
    for _ in range(6):
        a = rng.choice(POINTERS)
        if 0x8000 <= a < 0xFF00 or a >= 0xFF80: iw.append((a, rng.randrange(256)))
    if cart[0] != 0:
        # a store into 0x0000-0x7FFF would switch the bank under the running block (that is C03's SelfSwitch shape, a
        # known finding): these blocks are made of register instructions and loads only, with the stack in work RAM
        code = []
        for _ in range(rng.randint(1, maxlen)):
            if rng.randrange(4):
                code += alu_op(rng)
                continue
            op = rng.choice([0x7E, 0x46, 0x4E, 0x0A, 0x1A, 0x2A, 0x3A, 0x86, 0xBE, 0xF0, 0xFA])
            code.append(op)
            if op == 0xF0: code.append(rng.choice([0x04, 0x44, 0x0F, 0x80]))
            if op == 0xFA: code += [rng.randrange(256), rng.randrange(256)]
        code += rand_instr(rng, rng.choice([0xC3, 0x18, 0x76, 0xE9, 0xFB, 0xF3, 0xC9, 0xCD, 0xC7, 0x20, 0xCA]))
        if base + len(code) > 0x8000:
            base = 0x8000 - len(code)
            regs["pc"], phys = base, bank * 0x4000 + (base - 0x4000)
        regs["sp"] = 0xDFF0
    return scenario(sid, [(phys, code)], regs, 1, mode="block", ime=rng.choice(["Disabled", "Enabled"]),
                    init_writes=bankw + iw, cart=cart, romfill=rng.choice([0x00, 0xFF, 0x76]))

def random_blocks(n, rng, start_id=4000000, maxlen=32):
    return [random_block_scenario(start_id + i, rng, maxlen) for i in range(n)]


def straddle_programs(rom_only=False):
    """Instructions whose bytes straddle the end of a fetch region: 2- and 3-byte instructions with the opcode on
    the last and on the last-but-one byte of ROM bank 0 (into whichever bank is mapped), of the switchable bank (into
    video RAM), of both work-RAM banks and of high RAM (into IE), with operand bytes that differ from each other and
    from bank to bank."""
    out = []
    sid = 5000000
    forms = [("ld_a_n", [0x3E], 1), ("ld_bc_nn", [0x01], 2), ("jp_nn", [0xC3], 2), ("ld_a_nn", [0xFA], 2), ("ld_hl_n", [0x36], 1)]
    for cart in ((1, 2, 2), (0x11, 2, 2)):
        for bank in (1, 2, 3):
            for name, opc, noper in forms:
                for back in range(0, noper):        # opcode `back` bytes before the last byte of the region
                    # end of ROM bank 0: the operand bytes come from whichever bank is mapped
                    start = 0x3FFF - back
                    a = Asm(0x150)
                    a.emit(0x31); a.word(0xDFF0)
                    a.emit(0x21); a.word(0xC800)
                    a.emit(0x3E, bank, 0xEA); a.word(0x2000)
                    a.emit(0xC3); a.word(start)
                    chunks = [(0x100, [0x00, 0xC3, 0x50, 0x01]), (a.org, a.resolve())]
                    chunks.append((start, opc + [0x10 * bank, 0xC2][:back]))          # bytes that still lie in bank 0
                    for b in range(1, 8):
                        rest = ([0x10 * b, 0xC2] if noper == 2 else [0x10 * b])[back:]
                        chunks.append((b * 0x4000, rest + [0x06, b, 0x18, 0xFE]))     # then a marker and a loop
                    # JP nn lands in work RAM at 0xC2b0: a tight loop waits there
                    iw = [(0xC200 + 0x10 * b + k, v) for b in range(1, 8) for k, v in enumerate((0x18, 0xFE))]
                    out.append(scenario(sid, chunks, cpu(pc=0x100, sp=0xFFFE), 6, mode="block", cart=cart, init_writes=iw))
                    sid += 1
    if rom_only:
        return out
    # at the other region ends also the instructions that END a block but fall through: a conditional jump / call that is
    # not taken (Z is set) and STOP -- the program counter wraps from the top of high RAM to 0x0000 after them as well
    forms = forms + [("jp_nz_nn", [0xC2], 2), ("call_nz_nn", [0xC4], 2), ("jr_nz", [0x20], 1), ("stop", [0x10], 1)]
    for name, opc, noper in forms:
        for back in range(0, noper):
            for end in (0x7FFF, 0xCFFF, 0xDFFF, 0xFFFE):
                start = end - back
                iw = []
                code = opc + [0x5A, 0xC3][:noper]
                romchunks = [(0x100, [0x00])]
                for i, byte in enumerate(code):
                    ad = start + i
                    if ad < 0x8000: romchunks.append((ad, [byte]))      # bank 1 of a ROM-only cartridge
                    elif ad < 0xFF00 or ad >= 0xFF80: iw.append((ad & 0xFFFF, byte))
                regs = cpu(pc=start, sp=0xDFF0, h=0xC8, l=0x00, f=0x80)
                out.append(scenario(sid, romchunks, regs, 1, cart=(0, 0, 2), init_writes=iw, romfill=0x00))
                sid += 1
    return out


def long_blocks(n, rng, start_id=4500000):
    """Straight-line blocks of several hundred cheap instructions: more than 255 machine cycles in one block."""
    out = []
    for i in range(n):
        body = []
        for _ in range(rng.randint(150, 500)):
            body += alu_op(rng)
        code = body + rand_instr(rng, rng.choice([0xC3, 0x18, 0xC9, 0x76, 0xE9]))
        regs = cpu(a=rng.randrange(256), f=rng.randrange(16) * 16, sp=0xDFF0, pc=0x0200)
        out.append(scenario(start_id + i, [(0x0200, code)], regs, 1, mode="block", cart=(0, 0, 2), romfill=0x00,
                            init_writes=[(0xFF07, rng.choice([4, 5, 6, 7])), (0xFFFF, 0x05)]))
    return out


# ------------------------------------------------------------ cache histories
LO_BLOCK = 0x0200
HI_BLOCKS = [0x4000, 0x4010]

def cache_history_scenario(sid, steps, cart, bankreg=0x2000, bankmap=(1, 2, 3)):
    """A history of the CodeCache model as a program: bank-register writes and calls of blocks that
    load their own bank index (A) and slot (C); every ROM bank holds different code at the same addresses.
    Symbols: 0..2 switch to bankmap[s] from ROM code; 3 run the low block; 4, 5 run high block 0 / 1;
    6..8 switch to bankmap[s - 6] from a routine in work RAM (interpreted) that jumps straight into high block 0."""
    a = Asm(0x150)
    a.emit(0x31); a.word(0xDFF0)
    ram = any(x >= 6 for x in steps)
    if ram:
        routine = [0x78, 0xEA, bankreg & 0xFF, bankreg >> 8, 0xC3, 0x00, 0x40]      # LD A,B ; LD (bankreg),A ; JP 0x4000
        a.emit(0x21); a.word(0xC000)
        for x in routine: a.emit(0x36, x, 0x23)
    for si, sym in enumerate(steps):
        if sym < 3:
            a.emit(0x3E, bankmap[sym], 0xEA); a.word(bankreg)
            # two selections in a row are two blocks (a selection followed by a call shares its block with the call)
            if si + 1 < len(steps) and steps[si + 1] < 3: a.emit(0x18, 0x00)
        elif sym == 3:
            a.emit(0xCD); a.word(LO_BLOCK)
        elif sym < 6:
            if sym == 5: a.emit(0x16, 0x02)          # LD D,2: high block 1 loops onto its own start once before it returns
            a.emit(0xCD); a.word(HI_BLOCKS[sym - 4])
        else:
            a.emit(0x06, bankmap[sym - 6], 0xCD); a.word(0xC000)
    a.label("END"); a.jr(0x18, "END")
    # the low block lives in the fixed bank but reads a byte of the switchable bank (every bank holds its own number at
    # 0x7FF0): translated once, it must still see the bank mapped when it runs.   LD A,(0x7FF0) ; LD E,A ; LD A,0 ; LD C,0xE0 ; RET
    chunks = [(0x100, [0x00, 0xC3, 0x50, 0x01]), (a.org, a.resolve()), (LO_BLOCK, [0xFA, 0xF0, 0x7F, 0x5F, 0x3E, 0x00, 0x0E, 0xE0, 0xC9])]
    nbanks = {0: 2, 1: 4, 2: 8, 3: 16, 4: 32, 5: 64, 6: 128, 0x52: 72, 0x53: 80, 0x54: 96}[cart[1]]
    for b in sorted(set(list(bankmap) + [1])):
        # a bank number that is a multiple of the bank count selects the image's first 16 KiB at 0x4000 (a mirror of bank 0)
        phys = (b % nbanks) * 0x4000
        # (where several of the bank numbers name the same 16 KiB -- a two-bank image -- the code can only say which 16 KiB it is)
        who = b if len({x % nbanks for x in set(list(bankmap) + [1])}) == len(set(list(bankmap) + [1])) else b % nbanks
        chunks.append((phys + (HI_BLOCKS[0] - 0x4000), [0x3E, who, 0x0E, 0, 0xC9]))
        # high block 1: LD A,b ; LD C,1 ; DEC D ; JR NZ,start ; RET  -- a block that ends by jumping to its own start
        chunks.append((phys + (HI_BLOCKS[1] - 0x4000), [0x3E, who, 0x0E, 1, 0x15, 0x20, 0xF9, 0xC9]))
        chunks.append((phys + 0x3FF0, [who]))
    nsteps = 3 + sum(1 if x < 3 else (2 if x == 3 or x == 4 else (4 if x == 5 else 3)) for x in steps) + 2
    return scenario(sid, chunks, cpu(pc=0x100, sp=0xFFFE), nsteps, mode="block", cart=cart)

def mbc1_mode_scenarios(rng, n, start_id=6200000):
    """C03 on a 128-bank MBC1: histories over the three banking registers (low five bits, upper two bits, mode) and
    calls of a block in the fixed window and of two blocks in the switchable window; every 16 KiB of the image holds
    its own copies of the three blocks, loading its own number."""
    out = []
    for i in range(n):
        a = Asm(0x150)
        a.emit(0x31); a.word(0xDFF0)
        nsteps = 3
        for _ in range(rng.randint(4, 14)):
            k = rng.randrange(6)
            if k == 0:   a.emit(0x3E, rng.choice([0, 1, 2, 0x1F, 0x20, 0x21]), 0xEA); a.word(0x2000 + rng.choice([0, 0x1FFF])); nsteps += 0
            elif k == 1: a.emit(0x3E, rng.randrange(4), 0xEA); a.word(0x4000 + rng.choice([0, 0x1FFF]))
            elif k == 2: a.emit(0x3E, rng.randrange(2), 0xEA); a.word(0x6000 + rng.choice([0, 0x1FFF]))
            elif k == 3: a.emit(0xCD); a.word(LO_BLOCK); nsteps += 2
            else:        a.emit(0xCD); a.word(HI_BLOCKS[k - 4]); nsteps += 2
        a.label("END"); a.jr(0x18, "END")
        chunks = [(0x100, [0x00, 0xC3, 0x50, 0x01]), (a.org, a.resolve())]
        for b in range(128):
            chunks.append((b * 0x4000 + LO_BLOCK, [0x3E, b, 0x0E, 0xE0, 0xC9]))
            if b:
                chunks.append((b * 0x4000 + (HI_BLOCKS[0] - 0x4000), [0x3E, b, 0x0E, 0, 0xC9]))
                chunks.append((b * 0x4000 + (HI_BLOCKS[1] - 0x4000), [0x3E, b, 0x0E, 1, 0xC9]))
        out.append(scenario(start_id + i, chunks, cpu(pc=0x100, sp=0xFFFE), nsteps + 4, mode="block", cart=(1, 6, 0)))
    return out


def cache_events(trace_lines):
    """Projection of a recorded jit run to the events of the CodeCache model (no guessing: bank writes are
    taken from the bus-write log, runs from the pc before the step and the A register after it)."""
    ev = []
    for line in trace_lines:
        r = json.loads(line)
        if r["ev"] == "init":
            ev.append({"ev": "reset", "a": 0, "b": 0, "ranbank": 0})
        elif r["ev"] == "step" and r["k"] == "block":
            if r.get("cold"):
                ev.append({"ev": "cold", "a": 0, "b": 0, "ranbank": 0})
            if r["pc0"] == LO_BLOCK or r["pc0"] in HI_BLOCKS:
                ev.append({"ev": "run", "a": r["pc0"], "b": 0, "ranbank": r["o"]["af"] >> 8})
            for w in r["wr"]:
                if 0x2000 <= w[0] < 0x4000:
                    ev.append({"ev": "switch", "a": 0, "b": max(1, w[1] & 0x7F), "ranbank": 0})
    return ev


def cache_shape_scenarios():
    """Block shapes beyond 'a block lies in one bank and does not switch' (CodeCache.tla: Straddle, SelfSwitch)."""
    out = []
    for ci, cart in enumerate(((1, 2, 0), (0x11, 2, 0))):
        banks = 8
        # Straddle: a block that starts at 0x3FFE in bank 0 and runs into the switchable bank
        a = Asm(0x150)
        a.emit(0x31); a.word(0xDFF0)
        for b in (1, 2, 1, 3):
            a.emit(0x3E, b, 0xEA); a.word(0x2000)
            a.emit(0xCD); a.word(0x3FFE)
        a.label("END"); a.jr(0x18, "END")
        chunks = [(0x100, [0x00, 0xC3, 0x50, 0x01]), (a.org, a.resolve()), (0x3FFE, [0x04, 0x04])]
        for b in range(1, banks):
            chunks.append((b * 0x4000, [0x3E, b, 0xC9]))
        out.append(("straddle", scenario(6000000 + ci, chunks, cpu(pc=0x100, sp=0xFFFE), 30, mode="block", cart=cart)))
        # SelfSwitch: a block in the switchable bank that rewrites the bank register and continues
        a = Asm(0x150)
        a.emit(0x31); a.word(0xDFF0)
        a.emit(0x3E, 1, 0xEA); a.word(0x2000)
        a.emit(0xCD); a.word(0x4000)
        a.label("END"); a.jr(0x18, "END")
        chunks = [(0x100, [0x00, 0xC3, 0x50, 0x01]), (a.org, a.resolve())]
        for b in range(1, banks):
            # LD A,nb ; LD (0x2000),A ; LD B,b ; RET       (same layout in every bank)
            nb = b % (banks - 1) + 1
            chunks.append((b * 0x4000, [0x3E, nb, 0xEA, 0x00, 0x20, 0x06, b, 0xC9]))
        out.append(("selfswitch", scenario(6000100 + ci, chunks, cpu(pc=0x100, sp=0xFFFE), 12, mode="block", cart=cart)))
    return out


# ------------------------------------------------------------------ serial
BOOT = dict(a=1, f=0xB0, b=0, c=0x13, d=0, e=0xD8, h=1, l=0x4D, sp=0xFFFE, pc=0x100)

def serial_program(sid, rng, nwrites=None, in_ram=False):
    """Arbitrary sequences of writes to SB (0xFF01) and SC (0xFF02) through different instructions."""
    a = Asm(0x150)
    a.emit(0x31); a.word(0xDFF0)
    body = Asm(0xC400 if in_ram else 0x0)     # assembled separately when it is to run from work RAM
    t = body if in_ram else a
    n = nwrites or rng.randint(4, 40)
    if rng.randrange(3) == 0:
        t.emit(0x3E, rng.choice([0xC1, 0x80, 0x00]), 0xE0, 0x46)      # an OAM DMA is in flight while the serial port is used
    for _ in range(n):
        reg = rng.choice([1, 2, 2, 2])
        v = rng.choice([0x80, 0x81, 0xFF, 0x00, 0x01, 0x7F]) if (reg == 2 and rng.randrange(3)) else rng.randrange(256)
        k = rng.randrange(8)
        if k == 7:
            # read-modify-write instructions on SC / SB (they read 0xFF): SET / RES / INC / DEC / shifts through (HL)
            t.emit(0x21, reg, 0xFF)
            rmw = rng.choice([[0xCB, 0xFE], [0xCB, 0xC6], [0xCB, 0x86], [0xCB, 0xBE], [0x34], [0x35], [0xCB, 0x3E], [0xCB, 0x26], [0xCB, 0x36]])
            t.emit(*rmw)
        elif k == 6:
            w = rng.randrange(65536)                                              # LD (0xFF01),SP: SB := low, then SC := high
            t.emit(0x31, w & 0xFF, w >> 8, 0x08, 0x01, 0xFF, 0x31, 0xF0, 0xDF)
        elif k == 0: t.emit(0x3E, v, 0xE0, reg)                                   # LD A,v ; LDH (reg),A
        elif k == 1: t.emit(0x3E, v, 0x0E, reg, 0xE2)                             # LD C,reg ; LD (C),A
        elif k == 2: t.emit(0x21, reg, 0xFF, 0x36, v)                             # LD HL,0xFF0r ; LD (HL),v
        elif k == 3: t.emit(0x3E, v, 0xEA, reg, 0xFF)                             # LD (0xFF0r),A
        elif k == 4: t.emit(0x21, 0x01, 0xFF, 0x3E, v, 0x22, 0x3E, rng.randrange(256), 0x77)   # SB then SC through (HL+)
        else:
            w = rng.randrange(65536)                                              # PUSH landing on SC (high byte) and SB (low byte)
            t.emit(0x01, w & 0xFF, w >> 8, 0x31, 0x03, 0xFF, 0xC5, 0x31, 0xF0, 0xDF)
        if rng.randrange(4) == 0:
            for _ in range(rng.randint(1, 3)): t.emit(*alu_op(rng))
    chunks = [(0x100, [0x00, 0xC3, 0x50, 0x01])]
    if in_ram:
        code = body.resolve() + [0xC9]
        a.emit(0x21); a.word(0xC400)
        for x in code: a.emit(0x36, x, 0x23)
        a.emit(0xCD); a.word(0xC400)
        steps = 4 * len(code) + 60
    else:
        steps = 6 * n + 40
    a.label("END"); a.jr(0x18, "END")
    chunks.append((a.org, a.resolve()))
    return scenario(sid, chunks, cpu(**BOOT), steps, cart=(0, 0, 0), romfill=0x00)

def serial_programs(n, rng, start_id=7000000):
    return [serial_program(start_id + i, rng, in_ram=(i % 3 == 2)) for i in range(n)]

def rom_file_bytes(sc, title=b"VERIFTEST"):
    """A ROM file (valid header) for a scenario, for the repository's own binary."""
    banks = {0: 2, 1: 4, 2: 8, 3: 16, 4: 32, 5: 64, 6: 128}[sc["cart"][1]]
    img = bytearray([sc["romfill"]]) * (banks * 0x4000)
    for base, bs in sc["rom"]:
        img[base:base + len(bs)] = bytes(bs)
    img[0x134:0x134 + 11] = title.ljust(11, b"\0")[:11]
    img[0x13F:0x14D] = bytes(14)
    img[0x147], img[0x148], img[0x149] = sc["cart"]
    chk = 0
    for i in range(0x134, 0x14D):
        chk = (chk - img[i] - 1) & 0xFF
    img[0x14D] = chk
    return bytes(img)


def load_probe_program(kind, rombanks, rambytes):
    """Program for an accepted ROM file: touch the last declared ROM byte and every RAM bank, then print 'K'."""
    a = Asm(0x150)
    last = rombanks - 1
    if kind == "mbc1":
        a.emit(0x3E, last & 0x1F, 0xEA, 0x00, 0x20, 0x3E, (last >> 5) & 3, 0xEA, 0x00, 0x40)
    elif kind == "mbc3":
        a.emit(0x3E, last & 0x7F, 0xEA, 0x00, 0x20)
    a.emit(0xFA, 0xFF, 0x7F)                       # LD A,(0x7FFF)
    a.emit(0xFA, 0xFF, 0x3F)
    if kind == "mbc1":
        a.emit(0x3E, 0x01, 0xEA, 0x00, 0x60)       # RAM banking mode
    for b in range(4):
        if kind != "rom":
            a.emit(0x3E, b, 0xEA, 0x00, 0x40)
        a.emit(0xFA, 0x00, 0xA0, 0xFA, 0xFF, 0xBF, 0xEA, 0x00, 0xA0)
    a.emit(0x3E, 0x4B, 0xE0, 0x01, 0x3E, 0x81, 0xE0, 0x02)
    a.label("END"); a.jr(0x18, "END")
    return a.resolve()

def write_load_case_file(path, case):
    flen = case["fileLen"]
    with open(path, "wb") as f:
        f.truncate(flen)
        hdr = bytes(case["hdr"])
        if flen > 0x100:
            f.seek(0x100); f.write(hdr[:max(0, min(80, flen - 0x100))])
        prog = bytes(load_probe_program(case["kind"] if case["kind"] != "unsupported" else "rom", case["romsize"] // 0x4000, case["ramsize"]))
        if flen >= 0x150 + len(prog):
            f.seek(0x150); f.write(prog)


# ------------------------------------------------------------------- scenes
def scene(sid, rng, kind="random"):
    """A PPU scene: VRAM, OAM and registers held constant over a frame."""
    vram = [0] * 8192
    # tile data: a mixture of random tiles and structured ones so that flips and priorities are visible
    for t in range(384):
        style = rng.randrange(4)
        for r in range(8):
            if style == 0: lo, hi = rng.randrange(256), rng.randrange(256)
            elif style == 1: lo, hi = (0xF0 if r < 4 else 0x0F), (0xCC if r % 2 else 0x33)
            elif style == 2: lo, hi = (1 << (r % 8)), (0x80 >> (r % 8))
            else: lo, hi = 0, 0
            vram[16 * t + 2 * r] = lo; vram[16 * t + 2 * r + 1] = hi
    for k in range(0x1800, 0x2000):
        vram[k] = rng.randrange(256)
    oam = [0] * 160
    lcdc = 0x81 | (rng.randrange(64) << 1)
    sc = {"id": sid, "kind": kind, "lcdc": lcdc, "scx": rng.randrange(256), "scy": rng.randrange(256),
          "wx": rng.randrange(256), "wy": rng.randrange(256), "bgp": rng.randrange(256), "obp0": rng.randrange(256), "obp1": rng.randrange(256)}
    def obj(n, y, x, tile, attr):
        oam[4 * n:4 * n + 4] = [y & 0xFF, x & 0xFF, tile & 0xFF, attr & 0xFF]
    if kind == "random":
        for n in range(40):
            obj(n, rng.randrange(256), rng.randrange(256), rng.randrange(256), rng.randrange(256))
    elif kind == "window":
        sc["lcdc"] |= 0x20
        sc["wx"] = rng.choice([0, 1, 2, 3, 4, 5, 6, 0, 3, 6, 7, 8, 20, 87, 159, 160, 165, 166, 167, 200])
        sc["wy"] = rng.choice([0, 0, 1, 50, 143, 144, 200])
        for k in range(0x1800, 0x2000, 32):             # first window-map column: tiles with non-uniform rows
            vram[k] = rng.choice([t for t in range(384) if t < 256]) ; vram[k] = (vram[k] // 4) * 4
        for t in range(0, 256, 4):
            for r in range(8):
                vram[16 * t + 2 * r] = rng.randrange(1, 255); vram[16 * t + 2 * r + 1] = rng.randrange(1, 255)
        for n in range(40):
            obj(n, rng.randrange(160), rng.randrange(176), rng.randrange(256), rng.randrange(256))
    elif kind == "crowded":
        sc["lcdc"] |= 0x02
        line = rng.randrange(16, 150)
        for n in range(40):
            # more than ten objects on the same lines, equal-X ties, X = 0 and X >= 168 among them
            obj(n, line + rng.randrange(-3, 4), rng.choice([0, 8, 8, 9, 12, 50, 50, 100, 160, 167, 168, 200, rng.randrange(176)]), rng.randrange(256), rng.randrange(256))
    elif kind == "tall":
        sc["lcdc"] |= 0x06
        for n in range(40):
            obj(n, rng.choice([0, 1, 8, 15, 16, 17, 100, 152, 159, 160, rng.randrange(176)]), rng.choice([0, 1, 7, 8, 100, 161, 167, 168, rng.randrange(176)]),
                rng.randrange(256), rng.randrange(256))
    elif kind == "priority":
        sc["lcdc"] |= 0x02
        for n in range(40):
            obj(n, 16 + 4 * n % 140, 8 + (7 * n) % 150, rng.randrange(256), rng.choice([0x80, 0x00, 0x90, 0x10, 0xE0, 0x60]))
    elif kind == "palettes":
        # palette values a cache of decoded shades could get wrong: 0x00 (all white) as the first value ever written,
        # all-equal and identity / reversed maps; objects visible so that both object palettes are used
        sc["lcdc"] |= 0x02
        sc["bgp"], sc["obp0"], sc["obp1"] = [rng.choice([0x00, 0x00, 0xFF, 0xE4, 0x1B, 0x55, 0xAA]) for _ in range(3)]
        if sid % 8 == 3:      # (the fourth scene of a run is the first one its core renders: all three start at 0x00)
            sc["bgp"] = sc["obp0"] = sc["obp1"] = 0x00
        for n in range(40):
            obj(n, 16 + (9 * n) % 140, 8 + (13 * n) % 150, rng.randrange(256), rng.choice([0x00, 0x10, 0x80, 0x90]))
    elif kind == "scroll":
        sc["lcdc"] &= ~0x22
        sc["scx"] = rng.choice([0, 1, 7, 8, 95, 96, 97, 248, 255])
        sc["scy"] = rng.choice([0, 1, 7, 111, 112, 113, 248, 255])
    sc["vram"] = vram; sc["oam"] = oam
    return sc

def scenes(n, rng, start_id=8000000):
    kinds = ["random", "window", "crowded", "palettes", "tall", "priority", "scroll", "palettes"]
    return [scene(start_id + i, rng, kinds[i % len(kinds)]) for i in range(n)]



def alu_table_programs(rng):
    """Programs that walk a table of AF values through the accumulator/flag instructions (DAA above all) and
    through ADC/SBC, storing every result: the flag states ordinary code rarely produces."""
    out = []
    sid = 2900000
    for fam in range(4):
        vals = []
        if fam == 0:   vals = [(a << 8) | f for a in range(0x90, 0xA0) for f in range(0, 256, 16)]
        elif fam == 1: vals = [(a << 8) | f for a in (0x00, 0x09, 0x0A, 0x0F, 0x10, 0x60, 0x66, 0x99, 0x9A, 0xA0, 0xF9, 0xFA, 0xFF) for f in range(0, 256, 16)]
        else:          vals = [rng.randrange(65536) & 0xFFF0 for _ in range(200)]
        table = []
        for v in vals: table += [v & 0xFF, v >> 8]
        a = Asm(0x150)
        a.emit(0x31); a.word(0x2000)          # SP -> table in ROM (POP only reads)
        a.emit(0x21); a.word(0xC000)          # HL -> results
        a.emit(0x06, len(vals) & 0xFF if len(vals) < 256 else 0)
        a.label("LOOP")
        a.emit(0xF1)                          # POP AF
        op = [0x27, 0x27, 0x8F, 0x9F][fam]    # DAA, DAA, ADC A,A, SBC A,A
        a.emit(op, 0x22)                      # op ; LD (HL+),A
        a.emit(0xF5, 0xD1, 0x73, 0x23, 0x33, 0x33)   # PUSH AF ; POP DE ; LD (HL),E ; INC HL ; INC SP ; INC SP  (flags stored too)
        a.emit(0x05); a.jr(0x20, "LOOP")
        a.label("END"); a.jr(0x18, "END")
        chunks = [(0x100, [0x00, 0xC3, 0x50, 0x01]), (a.org, a.resolve()), (0x2000, table)]
        out.append(scenario(sid + fam, chunks, cpu(**BOOT), 3 + 2 * len(vals) + 4, cart=(0, 0, 2), romfill=0x00))
    return out


def dispatch_cancel_programs(rng):
    """Interrupt dispatches whose own pushes land on IE / IF (stack pointer 0x0000, 0x0001, 0xFF10, 0xFF11) and may
    cancel the dispatch; also ordinary stack pointers for contrast."""
    out = []
    sid = 9000000
    for spv in (0x0000, 0x0001, 0xFF10, 0xFF11, 0xDFF0, 0x0002, 0xFF0F):
        for pcbase in (0x0150, 0x0080, 0x2F10):
            for iflag, ie in ((0x04, 0x04), (0x01, 0x1F), (0x10, 0x10), (0x1F, 0x1F), (0x05, 0x04)):
                for imeon in ("Enabled", "EnableNext"):
                    code = [0x00, 0x00, 0x00, 0x18, 0xFD]                       # NOP NOP NOP ; JR -3
                    chunks = [(0x40 + 8 * b, [0x00, 0x18, 0xFD]) for b in range(5)] + [(0x0000, [0x00, 0x00, 0x18, 0xFC]), (pcbase, code)]
                    out.append(scenario(sid, chunks, cpu(sp=spv, pc=pcbase), 6, ime=imeon,
                                        init_writes=[(0xFFFF, ie), (0xFF0F, iflag)], cart=(0, 0, 2), romfill=0x00))
                    sid += 1
    return out



def dma_machine_programs(rng):
    """C16 at machine level: a transfer is started and the CPU then halts, stops, or keeps running (short and long
    blocks); a second write restarts it; the source is edited meanwhile."""
    out = []
    sid = 9500000
    for page in (0xC1, 0x80, 0x20, 0xA0, 0xFE, 0xD0, 0xE0):
        for after in ("halt", "stop", "run", "restart", "edit"):
            for tac in (5, 4):
                a = Asm(0x150)
                a.emit(0x31); a.word(0xDFF0)
                a.emit(0x21); a.word(0xC100)
                for i in range(12): a.emit(0x36, 0x10 + i, 0x23)              # some source bytes
                a.emit(0x3E, 0xF0, 0xE0, 0x05, 0x3E, tac, 0xE0, 0x07)          # timer: wakes the halted CPU
                a.emit(0x3E, 0x05, 0xE0, 0xFF, 0xFB)                           # IE = VBlank | timer ; EI
                a.emit(0x3E, page, 0xE0, 0x46)                                 # start the transfer
                if after == "halt": a.emit(0x76, 0x00, 0x76, 0x00)
                elif after == "stop": a.emit(0x10, 0x00, 0x00)
                elif after == "restart": a.emit(0x00, 0x00, 0x00, 0x3E, page, 0xE0, 0x46, 0x76, 0x00)
                elif after == "edit": a.emit(0x21, 0x05, page if 0xC0 <= page < 0xE0 else 0xC1, 0x36, 0x77, 0x23, 0x36, 0x88, 0x76, 0x00)
                else:
                    for _ in range(40): a.emit(*alu_op(rng))
                a.label("END"); a.jr(0x18, "END")
                chunks = [(0x40, [0xD9]), (0x50, [0xD9]), (0x100, [0x00, 0xC3, 0x50, 0x01]), (a.org, a.resolve())]
                out.append(scenario(sid, chunks, cpu(**BOOT), 260, cart=(1, 2, 2), romfill=0x00))
                sid += 1
    return out


def boundary_fallthrough_programs(rng, n=24):
    """C04: straight-line code that runs from the fixed bank into 0x4000 without a jump (ROM-only cartridges, so that
    C03's known straddling-block finding stays out of it): one block for the interpreter, and it must be one step for
    the recompiler as well."""
    out = []
    for i in range(n):
        body = []
        for _ in range(rng.randint(2, 10)): body += alu_op(rng)
        tail = []
        for _ in range(rng.randint(1, 6)): tail += alu_op(rng)
        tail += rng.choice([[0x76], [0xC3, 0x50, 0x01], [0xC9], [0x18, 0xFE]])
        # the last byte of `body` lands on 0x3FFF - skew: skew 0 = an instruction boundary exactly at 0x4000,
        # skew 1 = the last instruction of the body straddles it when it has more than one byte
        skew = rng.choice([0, 0, 1])
        base = 0x4000 - len(body) + skew
        a = Asm(0x150); a.emit(0x31, 0xF0, 0xDF); a.jp(0xC3, base)
        out.append(scenario(2950000 + i, [(0x100, [0x00, 0xC3, 0x50, 0x01]), (a.org, a.resolve()), (base, body + tail)],
                            cpu(pc=0x100, sp=0xFFFE), 6, mode="block", cart=(0, 0, 2), romfill=0x00))
    return out


def dma_long_block_programs():
    """C09: an OAM DMA in flight while one block of several hundred machine cycles runs (the whole block's time must
    reach the DMA engine as it reaches the timer and the LCD)."""
    out = []
    for i, (page, nops) in enumerate([(0xC0, 300), (0xC1, 255), (0x80, 256), (0xD0, 500), (0xC0, 100), (0xFE, 700), (0x00, 158)]):
        a = Asm(0x150)
        a.emit(0x3E, page, 0xE0, 0x46)
        for _ in range(nops): a.emit(0x00)
        a.emit(0x76); a.label("E"); a.jr(0x18, "E")
        sc = scenario(9800000 + i, [(0x100, [0x00, 0xC3, 0x50, 0x01]), (a.org, a.resolve())], cpu(pc=0x100, sp=0xFFFE), 8,
                      mode="block", cart=(0, 0, 2), romfill=0)
        # machine cycles of the first two blocks: NOP ; JP  and  LD A,n ; LDH (n),A ; NOP x nops ; HALT
        sc["expect_cpu"] = [5, 2 + 3 + nops + 1]
        out.append(sc)
    # long runs with the timer stopped (the power-on state): the divider wraps after 16384 machine cycles and the LCD
    # position after 17556; blocks of 250 NOPs closed by a jump back, and the same as a tight two-instruction loop
    for i, nops in enumerate([250, 0]):
        a = Asm(0x150)
        a.label("L")
        for _ in range(nops): a.emit(0x00)
        a.emit(0x0C); a.jp(0xC3, "L")
        steps = 100 if nops else 9000
        sc = scenario(9800100 + i, [(0x100, [0x00, 0xC3, 0x50, 0x01]), (a.org, a.resolve())], cpu(pc=0x100, sp=0xFFFE), steps,
                      mode="block", cart=(0, 0, 2), romfill=0)
        sc["expect_cpu"] = [5] + [nops + 1 + 4] * 3
        out.append(sc)
    return out


def lcd_off_frame_programs():
    """C09: stepping to the next frame with the display switched off / on by the guest."""
    out = []
    sid = 9700000
    for lcdc in (0x11, 0x00, 0x91, 0x80):
        a = Asm(0x150)
        a.emit(0x3E, lcdc, 0xE0, 0x40)
        a.label("END"); a.jr(0x18, "END")
        sc = scenario(sid, [(0x100, [0x00, 0xC3, 0x50, 0x01]), (a.org, a.resolve())], cpu(**BOOT), 6, cart=(0, 0, 2), romfill=0x00)
        sc["frames"] = 2
        out.append(sc); sid += 1
    return out
