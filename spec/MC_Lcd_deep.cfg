SPECIFICATION Spec
CONSTANTS
  Batches = {4, 80, 188, 376, 456, 4560}
  StatVals = {0, 8, 64, 120}
  LycVals = {0, 144, 153}
  StartQ = {0, 65204, 65472, 65660, 69768, 70220, 65664}
  MaxSteps = 4
INVARIANT TypeOK
INVARIANT BatchingIndependent
INVARIANT StatReflects
PROPERTY VBlankLaw
CHECK_DEADLOCK FALSE
