------------------------------ MODULE Gen_Cart ------------------------------
(***************************************************************************)
(* spec -> impl for C12 (and the configurations of C11): the controller    *)
(* transition relation exported for replay.  One record per                *)
(* (configuration, register state, written address): the ROM bank visible  *)
(* at 0x4000-0x7FFF and the RAM bank visible at 0xA000-0xBFFF after        *)
(* writing each of the 256 byte values, reduced to the cartridge's size.   *)
(*  - complete register space for MBC1 (32 x 4 x 2) and MBC3 (128 x 4) on  *)
(*    2 MiB / 32 KiB cartridges, all four register windows;                *)
(*  - a register lattice on every other ROM / RAM size, and ROM-only.      *)
(* Environment: OUT, SHARD, SHARDS.                                        *)
(***************************************************************************)
EXTENDS Cart, TLC, IOUtils, Json, Sequences

Env(name, default) == IF name \in DOMAIN IOEnv THEN IOEnv[name] ELSE default
OutFile == Env("OUT", "/tmp/gen_cart.ndjson")
Shard   == atoi(Env("SHARD", "0"))
Shards  == atoi(Env("SHARDS", "1"))

WindowAddrs == <<0, 8191, 8192, 16383, 16384, 24575, 24576, 32767>>

Rec(t, rc, mc, rom, hi, mode, a) ==
  LET c0 == [NewCart(t, rc, mc) EXCEPT !.rom = rom, !.hi = hi, !.mode = mode]
  IN [t |-> t, rc |-> rc, mc |-> mc, pre |-> [rom |-> rom, hi |-> hi, mode |-> mode], a |-> a,
      banks |-> c0.romBanks, ram |-> c0.ramBytes,
      pre_rb |-> RomBank(c0), pre_mb |-> RamBank(c0),
      exp |-> [v \in 1..256 |-> LET c1 == MbcWrite(c0, a, v - 1) IN <<RomBank(c1), RamBank(c1)>>]]

\* sequences of argument tuples
Full1 == [i \in 1..(32 * 4 * 2 * 4) |->
           LET k == i - 1 IN <<1, 6, 3, k % 32, (k \div 32) % 4, (k \div 128) % 2, WindowAddrs[2 * ((k \div 256) % 4) + 1 + (k % 2)]>>]
Full3 == [i \in 1..(128 * 4 * 4) |->
           LET k == i - 1 IN <<19, 6, 3, k % 128, (k \div 128) % 4, 0, WindowAddrs[2 * ((k \div 512) % 4) + 1 + (k % 2)]>>]
RomCodes == <<0, 1, 2, 4, 5, 8, 82, 83, 84>>
RamCodes == <<0, 1, 2, 3, 4, 5>>
TypesL == <<1, 2, 3, 17, 18, 19, 0>>
RomL == <<0, 1, 5, 31, 127>>
Lattice == [i \in 1..(7 * 9 * 6 * 5 * 3 * 2 * 4) |->
             LET k == i - 1
                 t == TypesL[(k % 7) + 1]
                 rc == RomCodes[((k \div 7) % 9) + 1]
                 mc == RamCodes[((k \div 63) % 6) + 1]
                 rom == RomL[((k \div 378) % 5) + 1]
                 hi == <<0, 1, 3>>[((k \div 1890) % 3) + 1]
                 mode == (k \div 5670) % 2
                 w == (k \div 11340) % 4
             IN <<t, rc, mc, IF t \in {1, 2, 3} THEN rom % 32 ELSE rom, hi, IF t \in {1, 2, 3} THEN mode ELSE 0,
                  WindowAddrs[2 * w + 1 + (k % 2)]>>]
N1 == Len(Full1)
N3 == Len(Full3)
NL == Len(Lattice)
Total == N1 + N3 + NL
Arg(k) == IF k <= N1 THEN Full1[k] ELSE IF k <= N1 + N3 THEN Full3[k - N1] ELSE Lattice[k - N1 - N3]     \* k in 1..Total
Count == IF Total > Shard THEN ((Total - 1 - Shard) \div Shards) + 1 ELSE 0

ASSUME PrintT(<<"GEN_CART", Total, Count>>)
ASSUME ndJsonSerialize(OutFile, [j \in 1..Count |->
          LET x == Arg(1 + Shard + (j - 1) * Shards) IN Rec(x[1], x[2], x[3], x[4], x[5], x[6], x[7])])
=============================================================================
