//! Construction of emulator cores and the projection between the code's state
//! and the specification's abstract state. This mapping is the trusted part of
//! the binding: it is the only place that knows both vocabularies.
use crate::cart::Header;
use crate::cpu::Registers;
use crate::devices::interrupts::InterruptFlag;
use crate::emulator::{Core, InterruptState, RunState};
use crate::mem::{self, MemoryAreas};
use serde_json::{json, Value};

/// Abstract CPU state of the specification (SM83.tla): a,f,b,c,d,e,h,l,sp,pc.
#[derive(Clone, Copy, Debug, PartialEq, Eq)]
pub struct Cpu {
  pub af: u32, pub bc: u32, pub de: u32, pub hl: u32, pub sp: u32, pub pc: u32,
}

impl Cpu {
  pub fn from_json(v: &Value) -> Cpu {
    let g = |k: &str| v[k].as_u64().unwrap() as u32;
    Cpu {
      af: g("a") << 8 | g("f"), bc: g("b") << 8 | g("c"), de: g("d") << 8 | g("e"),
      hl: g("h") << 8 | g("l"), sp: g("sp"), pc: g("pc"),
    }
  }
  pub fn to_json(&self) -> Value {
    // raw 32-bit fields are exposed so that values outside 0..65535 are visible
    json!({"a": self.af >> 8, "f": self.af & 0xff, "b": self.bc >> 8, "c": self.bc & 0xff,
           "d": self.de >> 8, "e": self.de & 0xff, "h": self.hl >> 8, "l": self.hl & 0xff,
           "sp": self.sp, "pc": self.pc})
  }
  pub fn load(&self, r: &mut Registers) {
    r.af = self.af; r.bc = self.bc; r.de = self.de; r.hl = self.hl; r.sp = self.sp; r.ip = self.pc;
    r.cycles = 0;
  }
  pub fn read(r: &Registers) -> Cpu {
    Cpu { af: r.af, bc: r.bc, de: r.de, hl: r.hl, sp: r.sp, pc: r.ip }
  }
}

/// Build a `Header` from raw header bytes (0x100..0x150 of a ROM image).
pub fn header_from_bytes(bytes: &[u8; 0x50]) -> Header {
  assert_eq!(std::mem::size_of::<Header>(), 0x50);
  unsafe { std::ptr::read_unaligned(bytes.as_ptr() as *const Header) }
}

pub fn header_bytes(cart_type: u8, rom_code: u8, ram_code: u8) -> [u8; 0x50] {
  let mut h = [0u8; 0x50];
  h[0x47] = cart_type; h[0x48] = rom_code; h[0x49] = ram_code;
  let mut check: u8 = 0;
  for i in 0x34..0x4d { check = check.wrapping_sub(h[i]).wrapping_sub(1); }
  h[0x4d] = check;
  h
}

fn zeroed(n: usize) -> Box<[u8]> { vec![0u8; n].into_boxed_slice() }

/// A core with `rom_banks` x 16 KiB of ROM (heap, not mmap), the cartridge
/// controller selected by `cart_type` (through the repository's own
/// `Header::create_cart_state`), `ram_bytes` of cartridge RAM and the 8 KiB of
/// work RAM that `from_rom_file` gives. Boxed: translated code embeds the
/// address of `core.memory`.
pub fn new_core(cart_type: u8, rom_banks: usize, ram_bytes: usize) -> Box<Core> {
  let mut core = Box::new(Core::with_code_block(vec![].into_boxed_slice()));
  core.memory.rom = zeroed(rom_banks * 0x4000);
  core.memory.work_ram = zeroed(0x2000);
  core.memory.cart_ram = zeroed(ram_bytes);
  if cart_type != 0 {
    let h = header_from_bytes(&header_bytes(cart_type, 0, 0));
    core.memory.cart_state = h.create_cart_state();
  }
  core
}

/// Core of the instruction-level checks: 32 KiB ROM, no controller, 8 KiB cart RAM.
pub fn plain_core() -> Box<Core> { new_core(0, 2, 0x2000) }

pub fn mem_ptr(core: &mut Core) -> *mut MemoryAreas { &mut core.memory as *mut MemoryAreas }

/// Place a byte in the storage cell behind `addr` (bypassing the bus).
pub fn poke(core: &mut Core, addr: u16, val: u8) {
  let a = addr as usize;
  let m = &mut core.memory;
  match a {
    0x0000..=0x3fff => m.rom[a] = val,
    0x4000..=0x7fff => { let b = m.cart_state.get_rom_bank(); m.rom[b * 0x4000 + (a & 0x3fff)] = val; },
    0x8000..=0x9fff => m.video_ram[a & 0x1fff] = val,
    0xa000..=0xbfff => { let b = m.cart_state.get_ram_bank(); m.cart_ram[b * 0x2000 + (a & 0x1fff)] = val; },
    0xc000..=0xcfff => m.work_ram[a & 0xfff] = val,
    0xd000..=0xdfff => m.work_ram[0x1000 + (a & 0xfff)] = val,
    0xfe00..=0xfe9f => m.oam_ram[a & 0xff] = val,
    0xff0f => m.io.interrupt_flag = InterruptFlag::new(val & 0x1f),
    0xff80..=0xfffe => m.high_ram[a & 0x7f] = val,
    0xffff => m.io.interrupt_mask = val & 0x1f,
    _ => {},
  }
}

pub fn peek(core: &mut Core, addr: u16) -> u8 {
  let p = mem_ptr(core);
  let was = rec_pause();
  let v = mem::memory_read_byte(p, addr);
  rec_resume(was);
  v
}

// ---- bus recorder -------------------------------------------------------
pub fn rec_start() { unsafe { mem::verif::LEN = 0; mem::verif::ENABLED = true; } }
pub fn rec_pause() -> bool { unsafe { let w = mem::verif::ENABLED; mem::verif::ENABLED = false; w } }
pub fn rec_resume(was: bool) { unsafe { mem::verif::ENABLED = was; } }
/// Stop recording and return the ordered (is_write, addr, value) list.
pub fn rec_stop() -> Vec<(bool, u16, u8)> {
  unsafe {
    mem::verif::ENABLED = false;
    let n = mem::verif::LEN;
    let mut out = Vec::with_capacity(n);
    for i in 0..n {
      let e = mem::verif::LOG[i];
      out.push(((e >> 24) == 1, ((e >> 8) & 0xffff) as u16, (e & 0xff) as u8));
    }
    mem::verif::LEN = 0;
    out
  }
}
pub fn writes_only(log: &[(bool, u16, u8)]) -> Vec<(u16, u8)> {
  log.iter().filter(|e| e.0).map(|e| (e.1, e.2)).collect()
}
pub fn clocks() -> [u64; 3] { unsafe { mem::verif::CLOCKS } }
pub fn clocks_reset() { unsafe { mem::verif::CLOCKS = [0; 3]; } }

pub fn ime_name(s: &InterruptState) -> &'static str {
  match s { InterruptState::Enabled => "Enabled", InterruptState::Disabled => "Disabled", InterruptState::EnableNext => "EnableNext" }
}
pub fn run_name(s: &RunState) -> &'static str {
  match s { RunState::Run => "Run", RunState::Stop => "Stop", RunState::Halt => "Halt" }
}
pub fn ime_from(s: &str) -> InterruptState {
  match s { "Enabled" => InterruptState::Enabled, "EnableNext" => InterruptState::EnableNext, _ => InterruptState::Disabled }
}
pub fn run_from(s: &str) -> RunState {
  match s { "Stop" => RunState::Stop, "Halt" => RunState::Halt, _ => RunState::Run }
}
