//! C20: records results of the debugger's command parser and of the disassembler for batch
//! validation by Val_Debugger.tla.
use crate::debug::command::{parse_address, parse_command, Command};
use crate::debug::disassembly::disassemble;
use crate::util::*;
use serde_json::{json, Value};
use std::io::Write;

fn res_json(c: Option<Command>) -> Value {
  match c {
    None => json!(["none"]),
    Some(Command::Continue) => json!(["continue"]),
    Some(Command::Step) => json!(["step"]),
    Some(Command::ReadRegisters) => json!(["regs"]),
    Some(Command::BreakSet(a)) => json!(["break", a]),
    Some(Command::ReadMemory(a)) => json!(["mem", a]),
    Some(other) => json!([format!("{:?}", other)]),
  }
}
fn cps(s: &str) -> Vec<u32> { s.chars().map(|c| c as u32).collect() }

fn emit_parse(out: &mut impl Write, line: &str) {
  let r = std::panic::catch_unwind(|| parse_command(line));
  let res = match r { Ok(c) => res_json(c), Err(_) => json!(["PANIC"]) };
  writeln!(out, "{}", json!({"k": "parse", "cp": cps(line), "res": res})).unwrap();
}
fn emit_addr(out: &mut impl Write, tok: &str) {
  let r = std::panic::catch_unwind(|| parse_address(tok));
  let res = match r { Ok(Some(a)) => json!(a), Ok(None) => json!(-1), Err(_) => json!(-2) };
  writeln!(out, "{}", json!({"k": "addr", "cp": cps(tok), "res": res})).unwrap();
}

fn mixed_case(rng: &mut Rng, w: &str) -> String { w.chars().map(|c| if rng.chance(1, 2) { c.to_ascii_uppercase() } else { c }).collect() }
const SPACES: [&str; 8] = [" ", "  ", "\t", " \t ", "\u{a0}", "\u{2003}", "\u{3000}", "\n"];

pub fn run(args: &[String]) {
  let outp = arg_value(args, "--out").expect("--out");
  let fam = arg_value(args, "--family").unwrap_or("all".into());
  let nrand = arg_usize(args, "--random", 20000);
  let shard = arg_usize(args, "--shard", 0); let shards = arg_usize(args, "--shards", 1);
  silence_panics();
  let mut rng = Rng::new(seed_from_env() ^ 0x20 ^ (shard as u64) << 8);
  let mut out = std::io::BufWriter::new(std::fs::File::create(&outp).unwrap());
  if fam == "all" || fam == "addresses" {
    // every 16-bit address in four notations, as a bare token and behind a command word in random case / spacing
    for a in 0..65536u32 {
      if a as usize % shards != shard { continue; }
      let forms = [format!("{}", a), format!("0x{:x}", a), format!("0x{:X}", a), format!("0x{:04x}", a), format!("{:05}", a)];
      for (i, f) in forms.iter().enumerate() {
        emit_addr(&mut out, f);
        if (a + i as u32) % 3 == 0 {
          let w0 = ["break", "print", "p"][rng.below(3) as usize];
          let word = mixed_case(&mut rng, w0);
          let lead = if rng.chance(1, 2) { SPACES[rng.below(8) as usize] } else { "" };
          let mid = SPACES[rng.below(8) as usize];
          let trail = if rng.chance(1, 2) { SPACES[rng.below(8) as usize] } else { "" };
          let line = format!("{}{}{}{}{}", lead, word, mid, f, trail);
          emit_parse(&mut out, &line);
        }
      }
    }
  }
  if (fam == "all" || fam == "malformed") && shard == 0 {
    let bad = ["65536", "65537", "99999", "100000", "4294967296", "18446744073709551616", "0x10000", "0x12345", "0xfffff", "0x", "0xg", "0x12g",
      "", "-1", "-0", "+5", "+65535", "+65536", "0x+12", "0x-1", "0X10", "0XFF", "1 2", "12a", "a12", "0b101", "0o17", "1_000", "１２", "٣", "0x１", "1e3", "1.0",
      " 12", "12 ", "0x 12", "００", "x12", "0xx12", "00x12", "0x0000000012", "000000000012", "0x00000000ffff", "0x0000000010000"];
    for b in bad.iter() {
      emit_addr(&mut out, b);
      for w in ["break", "p", "print", "BREAK", "Print"].iter() { emit_parse(&mut out, &format!("{} {}", w, b)); emit_parse(&mut out, &format!("{}\t{} extra", w, b)); }
    }
    // numbers assembled from pieces: repeated prefixes, signs in odd places, digits of the wrong base, range edges
    let pieces = ["0x", "0X", "x", "+", "-", "0", "1", "9", "a", "f", "F", "g", "10", "ffff", "FFFF", "10000", "65535", "65536", " ", "_", "0x0", "00"];
    for _ in 0..4000 {
      let n = 1 + rng.below(4) as usize;
      let mut t = String::new();
      for _ in 0..n { t.push_str(pieces[rng.below(pieces.len() as u64) as usize]); }
      emit_addr(&mut out, &t);
      if !t.contains(' ') { emit_parse(&mut out, &format!("break {}", t)); emit_parse(&mut out, &format!("P\t{}", t)); }
    }
    for w in ["c", "continue", "s", "step", "info reg", "info registers", "info", "info x", "break", "p", "print", "continue now", "step 2", "info reg x",
              "C", "Continue", "STEP", "S", "INFO REGISTERS", "Info Reg", "", " ", "\t\n", "cont", "steps", "ｃ", "ＳＴＥＰ", "\u{212a}", "ſ", "brea\u{212a}", "İnfo reg",
              "info\u{a0}reg", "c\u{2003}", "\u{3000}step\u{3000}", "c\u{200b}", "c\u{feff}", "\u{1f600}", "break\u{0}1", "p 0x10 0x20", "print 5 6 7"].iter() {
      emit_parse(&mut out, w);
      emit_parse(&mut out, &mixed_case(&mut rng, w));
      emit_parse(&mut out, &format!("  {}  ", w));
    }
  }
  if fam == "all" || fam == "random" {
    // random Unicode lines: the parser must return for every one of them
    let pool: Vec<char> = "abcdefgiknoprstxBCEIKNOPRST0123456789 \t+-x,.\u{a0}\u{2003}\u{212a}\u{131}\u{130}\u{17f}é漢\u{1f600}\u{0}\u{7f}\u{200b}\u{ff10}".chars().collect();
    for _ in 0..nrand {
      let n = rng.below(14) as usize;
      let mut s = String::new();
      for _ in 0..n {
        let c = if rng.chance(3, 4) { *rng.pick(&pool) } else { std::char::from_u32(rng.below(0x11000) as u32).unwrap_or('?') };
        s.push(c);
      }
      if rng.chance(1, 3) { let w = ["break", "p", "info", "c", "s", "print", "PRINT", "Step"][rng.below(8) as usize]; s = format!("{} {}", w, s); }
      emit_parse(&mut out, &s);
    }
  }
  if fam == "all" || fam == "disasm" {
    // random streams of complete instructions (lengths from the harness's own table of first bytes,
    // checked against the specification by the validator), random start addresses incl. wrap-around
    // ... and one listing longer than the address space (a whole 64 KiB image and a little more)
    let streams = (nrand / 10).max(50);
    for si in 0..streams {
      let long = si == 0 && shard == 0;
      let n = if long { 70000 } else { 1 + rng.below(24) as usize };
      let mut bytes: Vec<u8> = Vec::new();
      for _ in 0..n {
        let op = rng.byte();
        let (_, len, _) = crate::decoder::decode(&[op, 0, 0]);
        bytes.push(op);
        for _ in 1..len { bytes.push(rng.byte()); }
        if long && bytes.len() >= 65540 { break; }
      }
      let addr = if rng.chance(1, 3) { 0xffff - rng.below(40) as u16 } else { rng.word() };
      let r = std::panic::catch_unwind(|| disassemble(addr, &bytes).iter().map(|i| format!("{}", i)).collect::<Vec<String>>());
      let ins: Vec<Value> = match r {
        Ok(lines) => lines.iter().map(|l| {
          let a = u32::from_str_radix(l.get(2..6).unwrap_or("zzzz"), 16).unwrap_or(0x1ffff);
          let mut cnt = 0;
          for k in 0..4 { if let Some(slot) = l.get(8 + 3 * k..8 + 3 * k + 2) { if slot.trim().len() == 2 { cnt += 1; } } }
          json!([a, cnt])
        }).collect(),
        Err(_) => vec![json!([0x1ffff, 0])],
      };
      if long && ins.len() > 1 {
        // one call of disassemble() on the whole listing, validated in pieces of 400 instructions: every contiguous piece
        // of a tiling tiles its own bytes from its own first address
        let mut cursor = 0usize;
        for piece in ins.chunks(400) {
          let nbytes: usize = piece.iter().map(|x| ju(&x[1]) as usize).sum();
          let end = (cursor + nbytes).min(bytes.len());
          writeln!(out, "{}", json!({"k": "dis", "addr": ju(&piece[0][0]), "bytes": bytes[cursor..end].to_vec(), "ins": piece.to_vec(), "of": bytes.len()})).unwrap();
          cursor = end;
        }
        // (the pieces must account for every byte of the listing)
        writeln!(out, "{}", json!({"k": "dis", "addr": 0, "bytes": bytes[cursor..].to_vec(), "ins": Vec::<Value>::new(), "of": bytes.len()})).unwrap();
        continue;
      }
      writeln!(out, "{}", json!({"k": "dis", "addr": addr, "bytes": bytes, "ins": ins})).unwrap();
    }
  }
  out.flush().unwrap();
}
