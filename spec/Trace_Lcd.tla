------------------------------ MODULE Trace_Lcd ------------------------------
(***************************************************************************)
(* impl -> spec: validates recorded LCD histories against Lcd.tla.         *)
(* Records {ev, arg, ly, stat, vb, st}: LY and STAT as read afterwards,    *)
(* vb/st = VBlank / STAT requested by the event.  Events: reset, pos(q)    *)
(* (position set through the hook), wstat(v), wlyc(v), adv(n).             *)
(* A register write requests STAT when it makes LY = LYC (with the source  *)
(* enabled) newly true, never otherwise except for a repeated request      *)
(* while it stays true (accepted either way); it never requests VBlank.    *)
(***************************************************************************)
EXTENDS Lcd, TLC, IOUtils, Json, Sequences

Recs == ndJsonDeserialize(IOEnv.TRACE)
VARIABLES p, l
Init == p = PowerOn /\ l = 1
IsEvent(e) == l <= Len(Recs) /\ Recs[l].ev = e /\ l' = l + 1
Regs(x) == ReadLY(x) = Recs[l].ly /\ ReadSTAT(x) = Recs[l].stat % 128
Quiet == Recs[l].vb = 0 /\ Recs[l].st = 0

Reset == IsEvent("reset") /\ p' = PowerOn /\ Regs(p') /\ Quiet
Pos   == IsEvent("pos") /\ p' = [p EXCEPT !.q = Recs[l].arg] /\ Regs(p') /\ Quiet
\* "... and when LY becomes equal to LYC with the coincidence enable set": a write to LYC or STAT that makes this newly
\* true requests STAT then; after a write that leaves it false nothing is requested; where it was true and stays true a
\* repeated request is accepted either way (the statement is silent)
Coinc(x) == ReadLY(x) = x.lyc /\ Bit(x.en, 6) = 1
WriteReq(old, new) == IF ~Coinc(new) THEN Recs[l].st = 0 ELSE (Coinc(old) \/ Recs[l].st = 1)
WStat == IsEvent("wstat") /\ p' = WriteSTAT(p, Recs[l].arg) /\ Regs(p') /\ Recs[l].vb = 0 /\ WriteReq(p, p')
WLyc  == IsEvent("wlyc") /\ p' = WriteLYC(p, Recs[l].arg) /\ Regs(p') /\ Recs[l].vb = 0 /\ WriteReq(p, p')
\* LCDC does not influence the schedule (Dev_NoLcdOff): a write leaves position and requests alone
WLcdc == IsEvent("wlcdc") /\ UNCHANGED p /\ Regs(p) /\ Quiet
Adv   == IsEvent("adv") /\ LET r == Run(p, Recs[l].arg) IN
           /\ p' = r.p /\ Regs(r.p)
           /\ Recs[l].vb = B2N("vblank" \in r.req) /\ Recs[l].st = B2N("stat" \in r.req)
\* neither do the other registers of the LCD page; LY is read-only (arg = address * 256 + value)
WOther == IsEvent("wother") /\ UNCHANGED p /\ Regs(p) /\ Quiet
Next == Reset \/ Pos \/ WStat \/ WLyc \/ WLcdc \/ WOther \/ Adv
TraceSpec == Init /\ [][Next]_<<p, l>>

Matched == TLCGet("stats").diameter - 1
TraceAccepted ==
  IF Matched = Len(Recs) THEN PrintT(<<"TRACE_OK", Len(Recs)>>)
  ELSE /\ PrintT(<<"TRACE_REJECTED", Matched + 1, ToJson(Recs[Matched + 1])>>)
       /\ FALSE
=============================================================================
