------------------------------- MODULE Gen_Bus -------------------------------
(***************************************************************************)
(* spec -> impl for C10: the cell map of Machine.tla exported for the      *)
(* write/probe sweep.  For every address: its class and storage key.       *)
(*   "rom"     cartridge ROM: constant content, writes never change it     *)
(*   "store"   one independent byte of storage per key                     *)
(*   "ie"      the interrupt-enable register (5 bits stored)               *)
(*   "zero"    unmapped: reads 0, ignores writes                           *)
(*   "ioconst" unassigned I/O: reads 0xFF, ignores writes                  *)
(*   "io"      a device register (semantics in the device modules)         *)
(* The map is computed from MRead/MWrite themselves, not written by hand:  *)
(* an address is storage iff a write is read back and alters the store.    *)
(***************************************************************************)
EXTENDS Machine, IOUtils, Json

OutFile == IF "OUT" \in DOMAIN IOEnv THEN IOEnv.OUT ELSE "/tmp/gen_bus.json"
Base == PowerOnMachine(C!NewCart(0, 0, 2), ZeroCpu, << >>, 255)

Class(a) ==
  LET w1 == MWrite(Base, a, 21).m
      w2 == MWrite(Base, a, 10).m
  IN IF a < 32768 THEN "rom"
     ELSE IF a = 65535 THEN "ie"
     ELSE IF w1.mem # Base.mem /\ MRead(w1, a) = 21 /\ MRead(w2, a) = 10 THEN "store"
     ELSE IF w1 = Base /\ w2 = Base /\ MRead(Base, a) = 0 THEN "zero"
     ELSE IF w1 = Base /\ w2 = Base /\ MRead(Base, a) = 255 THEN "ioconst"
     ELSE "io"
Key(a) == IF Class(a) = "store" THEN CHOOSE k \in DOMAIN MWrite(Base, a, 21).m.mem : TRUE
          ELSE IF a < 32768 THEN C!RomIndex(Base.cart, a) ELSE 0

ASSUME JsonSerialize(OutFile, [i \in 1..65536 |-> [c |-> Class(i - 1), k |-> Key(i - 1)]])
ASSUME PrintT(<<"GEN_BUS", 65536>>)
=============================================================================
