#!/usr/bin/env python3
"""Writes /verif/MANIFEST.json from the table below (one source of truth)."""
import json, os, subprocess
V = os.path.dirname(os.path.dirname(os.path.abspath(__file__)))

CHECKS = {
 # id: (technique, level text, level note, design ref)
 "C07": ("TLC model checking of MC_Irq over the complete IF x IE x IME x run-state x SP-class x PC-class space + the same space exported by TLC (Gen_Irq) and replayed through Core::handle_interrupt / Core::update",
         "Dispatch is a finite function of a finite state: the six clauses of the statement are checked by TLC on every point of the space and every point is executed on the code (552 960 cases), so the binding is exhaustive over the stated quantifier.",
         "Trusted: TLC, the harness field mapping (cmd_irq.rs, world.rs poke). Stack-pointer classes stand for regions; pushes onto other device registers are covered by the machine traces of C04/C08.",
         "DESIGN.md 5/C07"),
 "C08": ("TLC model checking of MC_IntState (all sequences <= L with device requests while halted) + every sequence <= L materialised as a real program, stepped with Core::update and validated step by step by TLC against Machine.tla (Trace_Machine)",
         "History property over instruction sequences: TLC enumerates all sequences on the model; the same sequences run on the code and each recorded step must be the specification's step, so a sequencing error at any position is caught.",
         "Trusted: TLC, Machine.tla as the reading of the SM83/DMG behaviour, the recorder projection (cmd_machine.rs). HALT with an enabled interrupt already pending behaves as the emulator's simplification (wakes at once).",
         "DESIGN.md 5/C08"),
 "C09": ("TLC model checking of MC_Clock (conservation invariant over all step/halt/dispatch interleavings, frame-stepping liveness under weak fairness on a scaled LCD) + Trace_Clock validating the time projection of recorded machine traces in three stepping modes (hooks: CPU-reported cycles, per-device delivered clocks)",
         "Conservation is an invariant of every step of every run: the model is checked exhaustively and every recorded step of instruction-stepped, block-stepped and jit runs (incl. run_frame calls) is checked against it using counters that do not depend on device semantics.",
         "Trusted: TLC, the three clock-counter hooks and the CPU-cycle hook. The frame clause assumes no single step is longer than the vertical blanking period (TLC shows it false otherwise; see DESIGN 6).",
         "DESIGN.md 5/C09"),
 "C13": ("TLC: theorems (closed form = per-clock machine, additivity, DIV/period/TAC-edge laws) and MC_Timer (write/advance interleavings in lock-step with a per-clock shadow) + recorded histories (bus writes, batches 1..100000, phases via hook, partition runs) validated by Trace_Timer",
         "Batching independence is additivity of the specification (checked by TLC) plus conformance of every recorded batch to it; partition runs deliver the same scenario under 8 partitions.",
         "Trusted: TLC, Timer.tla, the divider-phase hook. A DIV write while the selected bit is high may or may not clock TIMA (statement silent): both accepted.",
         "DESIGN.md 5/C13"),
 "C14": ("TLC: theorems (closed-form schedule = 4-clock state machine over a whole frame x STAT masks x LYC, additivity, frame/mode/STAT laws) and MC_Lcd + recorded histories (all 16 STAT masks x LYC set over >3 frames in random partitions, hook-set start positions) validated by Trace_Lcd",
         "The schedule is a closed-form function of elapsed clocks in the specification (the statement), so any partition-dependent or off-by-a-line behaviour of the code is a rejected trace.",
         "Trusted: TLC, Lcd.tla, the LCD position hook (start positions restricted to modes 0/1 where the pixel pipeline is idle). STAT requests at register-write time are accepted either way.",
         "DESIGN.md 5/C14"),
 "C16": ("TLC model checking of MC_Dma (scaled length; start/advance/modify interleavings, per-cycle shadow) + recorded histories with the real length over all 256 source pages, random partitions, source edits, restarts, validated by Trace_Dma",
         "Copy progress, order, source-at-copy-time and 'nothing else touched' are state invariants of the trace specification evaluated after every recorded batch.",
         "Trusted: TLC, the DMA progress hook, the recorder's source snapshot (taken through the real bus immediately before each batch) and its hash of all other memory.",
         "DESIGN.md 5/C16"),
 "C17": ("TLC model checking of MC_Joypad + complete transition relation exported by TLC (Gen_Joypad) replayed on the real Joypad and through the bus/IF + recorded random histories validated by TLC (Trace_Joypad)",
         "The joypad is a 2^11-state machine: TLC explores every interleaving on the model and the complete transition relation (40 960 transitions) is executed on the code, so the binding is exhaustive, not sampled.",
         "Trusted: TLC, the harness field mapping (cmd_joypad.rs), the verif_pending hook. Buttons are injected at the Joypad API (the graphics shell is out of scope).",
         "DESIGN.md 5/C17"),
}

NOT_APPLICABLE = {
}

def main():
    hooks = subprocess.run(["git", "-C", "/repo", "log", "--format=%h %s"], capture_output=True, text=True).stdout.splitlines()
    hook_commits = [l.split()[0] for l in hooks if l.split(" ", 1)[1].startswith("verif hooks")]
    props = [json.loads(l)["id"] for l in open(os.path.join(V, "properties.jsonl"))]
    checks = []
    for pid in props:
        if pid not in CHECKS:
            continue
        tech, text, note, ref = CHECKS[pid]
        checks.append({
            "property_id": pid,
            "quick_cmd": "./check %s --tier quick" % pid,
            "thorough_cmd": "./check %s --tier thorough" % pid,
            "evidence_file": "/verif/evidence/%s.json" % pid,
            "replay_cmd_template": "./check %s --replay {path}" % pid,
            "engine": "tla-conformance",
            "level_claimed": {"category": "model_checking", "text": text, "design_ref": ref},
            "level_note": note,
            "technique": tech,
        })
    na = [{"property_id": p, "reason": NOT_APPLICABLE.get(p, "check not built yet in this round; see DESIGN.md section 10")}
          for p in props if p not in CHECKS]
    man = {
        "version": 1,
        "setup_cmd": "./setup.sh",
        "hooks": {
            "guard": "gb_dynarec_verif",
            "enable": "RUSTFLAGS --cfg gb_dynarec_verif (set in /verif/harness/.cargo/config.toml; the harness includes /repo/src/*.rs by #[path])",
            "baseline_off_cmd": "cd /repo && cargo test --offline --no-fail-fast",
            "source_commits": hook_commits,
            "add_only": True,
        },
        "engines": [{"name": "tla-conformance", "path": "/verif/check",
                     "serves_properties": [c["property_id"] for c in checks],
                     "kind_free_text": "explicit TLA+ specification (/verif/spec) checked by TLC; bound to the code by TLC-generated cases replayed through /verif/harness (Rust, includes /repo/src by path) and by recorded traces validated by TLC trace specifications"}],
        "checks": checks,
        "not_applicable": na,
        "notes": "Exit codes: 0 held, 1 VIOLATION (with replay file), 2 tool failure. Known findings in /verif/known_findings.json.",
    }
    with open(os.path.join(V, "MANIFEST.json"), "w") as f:
        json.dump(man, f, indent=1)
    print("MANIFEST.json: %d checks, %d not_applicable" % (len(checks), len(na)))

if __name__ == "__main__":
    main()
