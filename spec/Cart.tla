-------------------------------- MODULE Cart --------------------------------
(***************************************************************************)
(* Cartridge: header tables, controller register protocol (C12), physical  *)
(* indices with bank numbers reduced to the cartridge's size (C11), and    *)
(* the loader decision (C19).                                              *)
(*                                                                         *)
(* cart = [kind : {"rom","mbc1","mbc3"}, romBanks : Nat, ramBytes : Nat,   *)
(*         rom : register 0x2000-0x3FFF as written (masked to 5 / 7 bits), *)
(*         hi  : register 0x4000-0x5FFF (MBC1: 2 bits; MBC3: RAM bank),    *)
(*         mode : 0/1 (MBC1 0x6000-0x7FFF bit 0), ramEn : BOOLEAN]         *)
(*                                                                         *)
(* MBC1 follows the two-mode description the property refers to: in mode 0 *)
(* the upper two bits extend the ROM bank number and RAM bank 0 is mapped; *)
(* in mode 1 they select the RAM bank and the ROM bank is the 5-bit        *)
(* register alone.  Register value 0 selects bank 1 in both modes.         *)
(* 0x0000-0x3FFF always shows bank 0.                                      *)
(* Dev_NoRamGate: cartridge RAM is accessible whatever the enable register *)
(* says (the emulator does not gate it).                                   *)
(***************************************************************************)
EXTENDS Bits, Sequences

(* ---- header tables (bytes 0x147, 0x148, 0x149) ------------------------- *)
KindOfType(t) == CASE t = 0 -> "rom"
                   [] t \in {1, 2, 3} -> "mbc1"
                   [] t \in {17, 18, 19} -> "mbc3"
                   [] OTHER -> "unsupported"
RomBanksOfCode(c) == CASE c \in 0..8 -> Pow2(c + 1)
                       [] c = 82 -> 72 [] c = 83 -> 80 [] c = 84 -> 96
                       [] OTHER -> 2                      \* codes outside the table: the emulator assumes 32 KiB
RamBytesOfCode(c) == CASE c = 0 -> 0 [] c = 1 -> 2048 [] c = 2 -> 8192 [] c = 3 -> 32768
                       [] c = 4 -> 131072 [] c = 5 -> 65536 [] OTHER -> 0

NewCart(type, romCode, ramCode) ==
  [kind |-> KindOfType(type), romBanks |-> RomBanksOfCode(romCode), ramBytes |-> RamBytesOfCode(ramCode),
   rom |-> 1, hi |-> 0, mode |-> 0, ramEn |-> FALSE]

(* ---- register protocol --------------------------------------------------- *)
MbcWrite(cart, a, v) ==
  CASE cart.kind = "mbc1" ->
         (CASE a < 8192  -> [cart EXCEPT !.ramEn = ((v & 10) = 10)]
            [] a < 16384 -> [cart EXCEPT !.rom = v % 32]
            [] a < 24576 -> [cart EXCEPT !.hi = v % 4]
            [] OTHER     -> [cart EXCEPT !.mode = v % 2])
    [] cart.kind = "mbc3" ->
         (CASE a < 8192  -> [cart EXCEPT !.ramEn = ((v & 10) = 10)]
            [] a < 16384 -> [cart EXCEPT !.rom = v % 128]
            [] a < 24576 -> IF v < 4 THEN [cart EXCEPT !.hi = v] ELSE cart     \* 0x08-0x0C select clock registers (not emulated)
            [] OTHER     -> cart)                                             \* clock latch (not emulated)
    [] OTHER -> cart                                                          \* ROM only: writes ignored

NonZero(b) == IF b = 0 THEN 1 ELSE b
\* bank selected by the registers, before reduction to the cartridge size
SelectedRomBank(cart) ==
  CASE cart.kind = "mbc1" -> IF cart.mode = 0 THEN 32 * cart.hi + NonZero(cart.rom) ELSE NonZero(cart.rom)
    [] cart.kind = "mbc3" -> NonZero(cart.rom)
    [] OTHER -> 1
SelectedRamBank(cart) ==
  CASE cart.kind = "mbc1" -> IF cart.mode = 1 THEN cart.hi ELSE 0
    [] cart.kind = "mbc3" -> cart.hi
    [] OTHER -> 0
\* reduced to the cartridge's actual size
RomBank(cart) == SelectedRomBank(cart) % cart.romBanks
RamBanks(cart) == cart.ramBytes \div 8192
RamBank(cart) == IF RamBanks(cart) = 0 THEN 0 ELSE SelectedRamBank(cart) % RamBanks(cart)

(* ---- physical indices ------------------------------------------------------ *)
RomIndex(cart, a) == IF a < 16384 THEN a ELSE 16384 * RomBank(cart) + (a % 16384)       \* a in 0..0x7FFF
HasRam(cart) == cart.ramBytes > 0
RamIndex(cart, a) == (8192 * RamBank(cart) + (a % 8192)) % cart.ramBytes                \* a in 0xA000..0xBFFF, HasRam
NoRamValue == 255           \* what 0xA000-0xBFFF reads on a cartridge without RAM

(* ---- loading a ROM file (C19) ---------------------------------------------- *)
\* hdr: the 80 header bytes at file offsets 0x100..0x14F as a sequence (hdr[i + 1] = byte at 0x100 + i)
HdrByte(hdr, off) == hdr[off - 256 + 1]              \* off = absolute file offset 0x100..0x14F
RECURSIVE ChecksumFrom(_, _, _)
ChecksumFrom(hdr, off, acc) == IF off > 332 THEN acc ELSE ChecksumFrom(hdr, off + 1, (acc - HdrByte(hdr, off) - 1) % 256)
HeaderChecksum(hdr) == ChecksumFrom(hdr, 308, 0)     \* bytes 0x134..0x14C
\* the decision for a file of fileLen bytes (hdr is only meaningful when fileLen >= 0x150)
Load(fileLen, hdr) ==
  IF fileLen < 336 THEN [ok |-> FALSE, why |-> "too-short"]
  ELSE IF HeaderChecksum(hdr) # HdrByte(hdr, 333) THEN [ok |-> FALSE, why |-> "checksum"]
  ELSE IF KindOfType(HdrByte(hdr, 327)) = "unsupported" THEN [ok |-> FALSE, why |-> "type"]
  ELSE IF fileLen < 16384 * RomBanksOfCode(HdrByte(hdr, 328)) THEN [ok |-> FALSE, why |-> "smaller-than-declared"]
  ELSE [ok |-> TRUE, why |-> "", rom |-> 16384 * RomBanksOfCode(HdrByte(hdr, 328)), ram |-> RamBytesOfCode(HdrByte(hdr, 329)),
        kind |-> KindOfType(HdrByte(hdr, 327))]
=============================================================================
