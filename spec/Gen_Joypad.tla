----------------------------- MODULE Gen_Joypad -----------------------------
(***************************************************************************)
(* spec -> impl: the complete joypad transition relation (C17).            *)
(* 256 button states x 4 selections x 2 latch states x (8 presses +        *)
(* 8 releases + 4 select writes), each with the value P1 must read         *)
(* afterwards and what the request latch must report (then report nothing).*)
(***************************************************************************)
EXTENDS Joypad, TLC, IOUtils, Json, Sequences

OutFile == IF "OUT" \in DOMAIN IOEnv THEN IOEnv.OUT ELSE "/tmp/gen_joypad.ndjson"

SetOf(n) == {b \in Buttons : Bit(n, b) = 1}
NumOf(S) == LET RECURSIVE Sum(_) Sum(T) == IF T = {} THEN 0 ELSE LET x == CHOOSE x \in T : TRUE IN Pow2(x) + Sum(T \ {x}) IN Sum(S)

Pre(n, sel, pend) == [pressed |-> SetOf(n), selDir |-> (sel % 2 = 0), selAct |-> (sel \div 2 = 0), pending |-> pend = 1]
\* sel: bit0 = written bit 4, bit1 = written bit 5

Act(i) == IF i < 8 THEN [k |-> "press", arg |-> i]
          ELSE IF i < 16 THEN [k |-> "release", arg |-> i - 8]
          ELSE [k |-> "select", arg |-> 16 * (i - 16)]

Apply(js, a) == CASE a.k = "press" -> Press(js, a.arg)
                  [] a.k = "release" -> Release(js, a.arg)
                  [] a.k = "select" -> Select(js, a.arg)

Case(id) ==
  LET i == id % 20
      r1 == id \div 20
      pend == r1 % 2
      r2 == r1 \div 2
      sel == r2 % 4
      n == r2 \div 4
      pre == Pre(n, sel, pend)
      a == Act(i)
      post == Apply(pre, a)
  IN [id |-> id, pressed |-> n, sel |-> 16 * sel, pend |-> pend, act |-> a.k, arg |-> a.arg,
      exp |-> [p1pre |-> P1(pre), p1 |-> P1(post), irq |-> B2N(Collect(post).out),
               irq2 |-> B2N(Collect(Collect(post).js).out), pressed |-> NumOf(post.pressed)]]

Total == 256 * 4 * 2 * 20
ASSUME PrintT(<<"GEN_JOYPAD", Total>>)
ASSUME ndJsonSerialize(OutFile, [k \in 1..Total |-> Case(k - 1)])
=============================================================================
