//! C17: replay of the complete joypad transition relation (Gen_Joypad.tla)
//! on the real `Joypad`, directly and through the bus / IO catch-up into IF.
use crate::devices::joypad::{Button, Joypad};
use crate::util::*;
use crate::world::*;
use serde_json::{json, Value};

fn button(i: u64) -> Button {
  match i { 0 => Button::A, 1 => Button::B, 2 => Button::Select, 3 => Button::Start,
            4 => Button::Right, 5 => Button::Left, 6 => Button::Up, _ => Button::Down }
}

/// Bring a fresh joypad to (pressed, sel) with the request latch as demanded.
/// With nothing selected no line can fall, so the latch is under control.
fn reach(j: &mut Joypad, pressed: u64, sel: u8, pend: bool) -> bool {
  j.set_value(0x30);
  if pend {
    j.press_button(Button::A);
    j.set_value(0x10);              // action group selected: line 0 falls
    j.set_value(0x30);
    j.release_button(Button::A);
    if j.verif_pending() == 0 { return false; }
  } else {
    let _ = j.get_interrupt();
  }
  for b in 0..8 { if pressed >> b & 1 == 1 { j.press_button(button(b)); } }
  if !pend {
    // selecting may pull lines low; the pre-state of the case has an empty latch
    j.set_value(sel);
    let _ = j.get_interrupt();
  } else {
    j.set_value(sel);
  }
  true
}

pub fn run(args: &[String]) {
  let cases = read_ndjson(&arg_value(args, "--cases").expect("--cases"));
  let mut n = 0u64;
  for case in &cases {
    let pressed = ju(&case["pressed"]);
    let sel = ju(&case["sel"]) as u8;
    let pend = ju(&case["pend"]) == 1;
    let act = case["act"].as_str().unwrap();
    let arg = ju(&case["arg"]);
    let exp = &case["exp"];
    // (1) the device itself
    let mut j = Joypad::new();
    let ok = reach(&mut j, pressed, sel, pend);
    let p1pre = j.get_value() & 0x3f;
    // (statement position throughout: the harness must keep compiling if one of these starts to return something)
    match act { "press" => { let _ = j.press_button(button(arg)); }, "release" => { let _ = j.release_button(button(arg)); },
                _ => { let _ = j.set_value(arg as u8); } }
    let p1 = j.get_value() & 0x3f;
    let irq = (j.get_interrupt().as_u8() != 0) as u64;
    let irq2 = (j.get_interrupt().as_u8() != 0) as u64;
    // (2) through the bus and the device catch-up into IF
    let mut core = plain_core();
    let p = mem_ptr(&mut core);
    let okb = reach(&mut core.memory.io.joypad, pressed, sel, pend);
    core.memory.io.interrupt_flag = crate::devices::interrupts::InterruptFlag::new(0);
    match act { "press" => { let _ = core.memory.io.joypad.press_button(button(arg)); },
                "release" => { let _ = core.memory.io.joypad.release_button(button(arg)); },
                _ => { crate::mem::memory_write_byte(p, 0xff00, arg as u8); } }
    let bus_p1 = crate::mem::memory_read_byte(p, 0xff00) & 0x3f;
    core.memory.run_clock_cycles(crate::timing::ClockCycles(4));
    let if1 = (crate::mem::memory_read_byte(p, 0xff0f) >> 4 & 1) as u64;
    crate::mem::memory_write_byte(p, 0xff0f, 0);
    core.memory.run_clock_cycles(crate::timing::ClockCycles(4));
    let if2 = (crate::mem::memory_read_byte(p, 0xff0f) >> 4 & 1) as u64;
    let mut d: Vec<&str> = Vec::new();
    if !ok || !okb { d.push("setup"); }
    if p1pre as u64 != ju(&exp["p1pre"]) { d.push("p1pre"); }
    if p1 as u64 != ju(&exp["p1"]) { d.push("p1"); }
    if irq != ju(&exp["irq"]) { d.push("irq"); }
    if irq2 != ju(&exp["irq2"]) { d.push("irq2"); }
    if bus_p1 as u64 != ju(&exp["p1"]) { d.push("bus_p1"); }
    if if1 != ju(&exp["irq"]) { d.push("if"); }
    if if2 != ju(&exp["irq2"]) { d.push("if2"); }
    if !d.is_empty() {
      println!("{}", json!({"kind": "mismatch", "case": case, "fields": d,
        "obs": {"p1pre": p1pre, "p1": p1, "irq": irq, "irq2": irq2, "bus_p1": bus_p1, "if": if1, "if2": if2}}));
    }
    n += 1;
  }
  println!("{}", json!({"kind": "summary", "cases": n}));
}

/// impl -> spec: random histories recorded from the real device (through the bus
/// for selection writes and through IO::run_clock_cycles for collection).
pub fn trace(args: &[String]) {
  let n = arg_usize(args, "--events", 5000);
  let mut rng = Rng::new(seed_from_env() ^ 0x17);
  let mut core = plain_core();
  let p = mem_ptr(&mut core);
  let mut left = 0usize;
  for _ in 0..n {
    if left == 0 {
      core = plain_core();
      left = 20 + rng.below(200) as usize;
      let p = mem_ptr(&mut core);
      println!("{}", json!({"ev": "reset", "arg": 0, "p1": crate::mem::memory_read_byte(p, 0xff00) & 0x3f, "out": 0, "if4": 0}));
      continue;
    }
    left -= 1;
    let p = mem_ptr(&mut core);
    let k = rng.below(14);
    let (ev, arg, out) = if k < 4 {
      let b = rng.below(8); let _ = core.memory.io.joypad.press_button(button(b)); ("press", b, 0)
    } else if k < 6 {
      let b = rng.below(8); let _ = core.memory.io.joypad.release_button(button(b)); ("release", b, 0)
    } else if k < 8 {
      let v = rng.byte(); crate::mem::memory_write_byte(p, 0xff00, v); ("select", v as u64, 0)
    } else if k < 10 {
      crate::mem::memory_write_byte(p, 0xff0f, 0);
      core.memory.run_clock_cycles(crate::timing::ClockCycles(4));
      let o = (crate::mem::memory_read_byte(p, 0xff0f) >> 4 & 1) as u64;
      ("collect", 0, o)
    } else if k < 11 {
      crate::mem::memory_write_byte(p, 0xff0f, 0);
      ("ack", 0, 0)
    } else {
      // one machine cycle of device time without acknowledging first: directly, or as the emulator lets it pass while
      // the CPU is halted (1) or stopped (2); IE is 0, so nothing wakes or dispatches
      let how = rng.below(3);
      match how {
        0 => { core.memory.run_clock_cycles(crate::timing::ClockCycles(4)); },
        1 => { core.run_state = crate::emulator::RunState::Halt; core.update(); },
        _ => { core.run_state = crate::emulator::RunState::Stop; core.update(); },
      }
      ("tick", how, 0)
    };
    let p = mem_ptr(&mut core);
    // IF bit 4 as the bus shows it after the event (no device time passes for this read)
    let if4 = (crate::mem::memory_read_byte(p, 0xff0f) >> 4 & 1) as u64;
    println!("{}", json!({"ev": ev, "arg": arg, "p1": crate::mem::memory_read_byte(p, 0xff00) & 0x3f, "out": out, "if4": if4}));
  }
}
