SPECIFICATION TraceSpec
CONSTANTS
  Banks = {1, 2, 3, 33}
  LoAddrs = {512}
  HiAddrs = {16384, 16400}
  Capacity = 100000
  Bug_NoTagSync = FALSE
  WithStraddle = FALSE
  WithSelfSwitch = FALSE
POSTCONDITION TraceAccepted
CHECK_DEADLOCK FALSE
