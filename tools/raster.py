"""Raster scenes: a base PPU scene plus patches applied during blanking (Val_PpuRaster.tla).

A patch is effective from `line` on: the harness writes it through the bus during the HBlank of line - 1
(or during VBlank for line 0).  Each patch carries the complete register set after the writes, plus the
video RAM / OAM bytes it changed.
"""
import gbprog

REGS = ["lcdc", "scx", "scy", "wx", "wy", "bgp", "obp0", "obp1"]


def raster_scene(sid, rng, kind):
    sc = gbprog.scene(sid, rng, rng.choice(["random", "window", "crowded", "tall", "priority", "scroll"]))
    sc["kind"] = "raster-" + kind
    cur = {k: sc[k] for k in REGS}
    if kind == "every-line":
        lines = list(range(0, 144, rng.choice([1, 2, 8])))
    elif kind == "split":
        lines = sorted(rng.sample(range(1, 144), 2))
    else:
        lines = sorted(rng.sample(range(0, 144), rng.randint(1, 8)))
    patches = []
    for y in lines:
        p_vram, p_oam = [], []
        for _ in range(rng.randint(1, 3)):
            what = rng.randrange(12)
            if what == 0: cur["scx"] = rng.randrange(256)
            elif what == 1: cur["scy"] = rng.randrange(256)
            elif what == 2: cur["bgp"] = rng.randrange(256)
            elif what == 3: cur["wx"] = rng.choice([0, 3, 7, 8, 50, 87, 159, 166, 167, 200, rng.randrange(256)])
            elif what == 4: cur["wy"] = rng.choice([0, y, max(0, y - 1), y + 1, 143, 200])
            elif what == 5: cur["lcdc"] = (cur["lcdc"] ^ (1 << rng.choice([1, 2, 3, 4, 5, 6]))) | 0x81
            elif what == 6: cur["obp0"] = rng.randrange(256)
            elif what == 7: cur["obp1"] = rng.randrange(256)
            elif what == 8:      # rewrite tile-map entries
                for _ in range(rng.randint(1, 20)):
                    p_vram.append([rng.randrange(0x1800, 0x2000), rng.randrange(256)])
            elif what == 9:      # rewrite tile data
                for _ in range(rng.randint(1, 20)):
                    p_vram.append([rng.randrange(0, 0x1800), rng.randrange(256)])
            elif what == 10:     # move / change an object
                n = rng.randrange(40)
                p_oam.append([4 * n + rng.randrange(4), rng.choice([y + 16, y + 9, y + 17, rng.randrange(256)]) & 0xFF])
            else:                # sprite multiplexing: the same slot reused further down
                n = rng.randrange(40)
                p_oam += [[4 * n, (y + 16) & 0xFF], [4 * n + 1, rng.randrange(8, 160)]]
        p = dict(cur); p.update(line=y, vram=p_vram, oam=p_oam)
        patches.append(p)
    sc["patches"] = patches
    return sc


def raster_scenes(n, rng, start_id=8500000):
    kinds = ["few", "split", "every-line", "few"]
    return [raster_scene(start_id + i, rng, kinds[i % len(kinds)]) for i in range(n)]
