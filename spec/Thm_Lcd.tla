------------------------------- MODULE Thm_Lcd -------------------------------
(***************************************************************************)
(* Theorems about Lcd.tla (TLC ASSUME): the closed-form schedule equals    *)
(* the 4-clock state machine, elapsed time is additive, the frame is 70224 *)
(* clocks with VBlank exactly once, mode durations are 80/188/188.         *)
(***************************************************************************)
EXTENDS Lcd, TLC, IOUtils

Deep == "DEEP" \in DOMAIN IOEnv
P(q, en, lyc) == [q |-> q, en |-> en, lyc |-> lyc]
Ens  == IF Deep THEN {8 * k : k \in 0..15} ELSE {0, 8, 16, 32, 64, 120}
Lycs == {0, 1, 143, 144, 153, 200}

\* whole-frame walk: at every machine cycle of a frame the closed form and the state machine agree
ASSUME StepIsClosedForm ==
  \A en \in Ens, lyc \in Lycs :
    \A k \in 0..17555 : Step4(P(4 * k, en, lyc)) = Run(P(4 * k, en, lyc), 4)

ASSUME ClosedFormIsIterated ==
  \A q \in {0, 76, 80, 264, 268, 452, 456, 65204, 65660, 65664, 70220}, en \in {0, 120, 72}, lyc \in {0, 144, 153},
     n \in {4, 8, 188, 456, 460, 4560} :
    Run(P(q, en, lyc), n) = Iter(P(q, en, lyc), n)

ASSUME Additive ==
  \A q \in {0, 80, 268, 452, 65660, 65664, 70220, 33000}, en \in {0, 120, 64, 8}, lyc \in {0, 72, 144},
     a \in {4, 80, 188, 456, 4560, 70224, 80000}, b \in {4, 376, 460, 65664, 70220, 70224, 140448} :
    LET p == P(q, en, lyc)  ra == Run(p, a)  rb == Run(ra.p, b)  rr == Run(p, a + b)
    IN rb.p = rr.p /\ (ra.req \cup rb.req) = rr.req

\* the frame: 154 lines of 456 clocks, period 70224, VBlank exactly at LY -> 144
ASSUME FrameLaw ==
  /\ Frame = 154 * 456
  /\ \A q \in {0, 4, 65660, 65664, 70220} : Run(P(q, 0, 0), Frame).p.q = q /\ "vblank" \in Run(P(q, 0, 0), Frame).req
  /\ \A k \in 0..17555 : ("vblank" \in Step4(P(4 * k, 0, 255)).req) <=> (4 * k + 4 = 144 * 456)
  /\ Cardinality({k \in 0..17555 : "vblank" \in Step4(P(4 * k, 120, 7)).req}) = 1

\* mode durations on visible lines and mode 1 on lines 144..153
ASSUME ModeLaw ==
  /\ \A L \in 0..143 : /\ Cardinality({x \in 0..455 : Mode(456 * L + x) = 2}) = 80
                       /\ Cardinality({x \in 0..455 : Mode(456 * L + x) = 3}) = 188
                       /\ Cardinality({x \in 0..455 : Mode(456 * L + x) = 0}) = 188
                       /\ Mode(456 * L) = 2 /\ Mode(456 * L + 80) = 3 /\ Mode(456 * L + 268) = 0
  /\ \A L \in 144..153, x \in {0, 4, 80, 268, 452} : Mode(456 * L + x) = 1
  /\ \A q \in {0, 456, 70223} : LY(q) \in 0..153

\* STAT: one request per enabled mode entry per line, coincidence once per frame
ASSUME StatLaw ==
  /\ Cardinality({k \in 0..17555 : "stat" \in Step4(P(4 * k, 32, 255)).req}) = 144    \* mode 2
  /\ Cardinality({k \in 0..17555 : "stat" \in Step4(P(4 * k, 8, 255)).req}) = 144     \* mode 0
  /\ Cardinality({k \in 0..17555 : "stat" \in Step4(P(4 * k, 16, 255)).req}) = 1      \* mode 1
  /\ \A lyc \in {0, 1, 143, 144, 153} :
       {4 * k + 4 : k \in {k \in 0..17555 : "stat" \in Step4(P(4 * k, 64, lyc)).req}} = {((456 * lyc) % Frame) + (IF lyc = 0 THEN Frame ELSE 0)}
  /\ Cardinality({k \in 0..17555 : "stat" \in Step4(P(4 * k, 64, 154)).req}) = 0
=============================================================================
