"""Guest program and scenario generators (Python side of the drivers).
A scenario is what `gbv machine` executes: ROM chunks, initial CPU state,
bus writes to perform first, number of emulator steps, external events."""
import json, random, itertools

def cpu(a=0, f=0, b=0, c=0, d=0, e=0, h=0, l=0, sp=0xdff0, pc=0x100):
    return {"a": a, "f": f, "b": b, "c": c, "d": d, "e": e, "h": h, "l": l, "sp": sp, "pc": pc}

def scenario(sid, chunks, regs, steps, mode="update", ime="Disabled", init_writes=(), ext=(), cart=(0, 0, 0), romfill=0xFF):
    return {"id": sid, "cart": list(cart), "romfill": romfill, "rom": [[base, list(bs)] for base, bs in chunks],
            "cpu": regs, "ime": ime, "mode": mode, "steps": steps,
            "init_writes": [list(w) for w in init_writes], "ext": [list(e) for e in ext]}

def write_scenarios(path, scs):
    with open(path, "w") as f:
        for s in scs:
            f.write(json.dumps(s, separators=(",", ":")) + "\n")

# ------------------------------------------------------------------ C08
# alphabet of the interrupt-control sequences
EI, DI, RETI, HALT, STOP, NOP, REQ, WIE = "EI", "DI", "RETI", "HALT", "STOP", "NOP", "REQ", "WIE"
ALPHABET = [EI, DI, RETI, HALT, STOP, NOP, REQ, WIE]
ENC = {EI: [0xFB], DI: [0xF3], RETI: [0xD9], HALT: [0x76], STOP: [0x10, 0x00], NOP: [0x00],
       REQ: [0x70],      # LD (HL),B with HL = 0xFF0F: IF := B
       WIE: [0x12]}      # LD (DE),A with DE = 0xFFFF: IE := A
HANDLERS = {"reti": [0xD9], "ret": [0xC9], "nop_reti": [0x00, 0xD9], "ei_ret": [0xFB, 0xC9], "di_halt": [0xF3, 0x76]}

def c08_scenario(sid, seq, ime, if0, ie0, breq, aie, handler, base=0x150, extra_steps=6):
    code = []
    reti_returns = []
    for sym in seq:
        code += ENC[sym]
        if sym == RETI:
            reti_returns.append(base + len(code))
    code += [0x00, 0x00, 0x18, 0xFE]            # NOP NOP JR -2
    chunks = [(0x40 + 8 * b, HANDLERS[handler]) for b in range(5)] + [(base, code)]
    sp = 0xDF00
    iw = []
    for i, ret in enumerate(reti_returns):       # the words main-line RETIs will pop
        iw.append((sp + 2 * i, ret & 0xFF)); iw.append((sp + 2 * i + 1, ret >> 8))
    iw.append((0xFF0F, if0)); iw.append((0xFFFF, ie0))
    regs = cpu(a=aie, b=breq, d=0xFF, e=0xFF, h=0xFF, l=0x0F, sp=sp, pc=base)
    # halted/stopped CPUs need update() calls to tick; allow some
    return scenario(sid, chunks, regs, len(seq) + extra_steps, mode="update", ime=ime, init_writes=iw)

def c08_all(maxlen, rng):
    """Every sequence of length 1..maxlen over the alphabet, each with a deterministic rotation of
    initial master enable / pending state / handler shape (so that all combinations occur)."""
    out = []
    sid = 0
    inits = list(itertools.product(["Disabled", "Enabled"], [(0, 0), (4, 4), (1, 5), (0, 4)], ["reti", "ret", "ei_ret", "nop_reti"]))
    for n in range(1, maxlen + 1):
        for seq in itertools.product(ALPHABET, repeat=n):
            ime, (if0, ie0), h = inits[sid % len(inits)]
            breq = [0x04, 0x01, 0x14][sid % 3]
            aie = [0x04, 0x1F, 0x00, 0x01][(sid // 3) % 4]
            out.append(c08_scenario(sid, seq, ime, if0, ie0, breq, aie, h))
            sid += 1
    return out

def c08_random(n, maxlen, rng, start_id=1000000):
    out = []
    for i in range(n):
        ln = rng.randint(3, maxlen)
        seq = [rng.choice(ALPHABET) for _ in range(ln)]
        out.append(c08_scenario(start_id + i, seq, rng.choice(["Disabled", "Enabled", "EnableNext"]),
                                rng.choice([0, 1, 4, 0x1F, 0x10]), rng.choice([0, 4, 5, 0x1F]),
                                rng.choice([0, 1, 4, 0x14, 0x1F]), rng.choice([0, 1, 4, 5, 0x1F]),
                                rng.choice(list(HANDLERS)), extra_steps=rng.randint(4, 30)))
    return out
