SPECIFICATION Spec
CONSTANTS
  Alphabet = {112, 80, 99, 115, 83, 32, 160, 48, 120, 88, 49, 70, 43, 233, 103}
  MaxLen = 4
INVARIANT Total
INVARIANT Deterministic
INVARIANT SpaceInsensitive
CHECK_DEADLOCK FALSE
