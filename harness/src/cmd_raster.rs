//! Raster effects (Val_PpuRaster.tla): a base scene is loaded during VBlank, then patches are written
//! through the bus during the blanking that precedes their line (HBlank of line - 1, VBlank for line 0)
//! while the frame is clocked through VideoState::run_clock_cycles; records the frame presented.
use crate::mem::memory_write_byte;
use crate::timing::ClockCycles;
use crate::util::*;
use crate::world::*;
use serde_json::{json, Value};
use std::io::Write;

const REGS: [(u16, &str); 8] = [(0xff40, "lcdc"), (0xff42, "scy"), (0xff43, "scx"), (0xff47, "bgp"), (0xff48, "obp0"), (0xff49, "obp1"), (0xff4a, "wy"), (0xff4b, "wx")];

fn advance(core: &mut crate::emulator::Core, clocks: usize) {
  let m = &mut core.memory;
  let _ = m.io.video.run_clock_cycles(ClockCycles(clocks), &m.video_ram, &m.oam_ram);
}

fn apply(core: &mut crate::emulator::Core, p: &Value, prev: &Value) {
  let mp = mem_ptr(core);
  for w in p["vram"].as_array().unwrap() { memory_write_byte(mp, 0x8000 + ju(&w[0]) as u16, ju(&w[1]) as u8); }
  for w in p["oam"].as_array().unwrap() { memory_write_byte(mp, 0xfe00 + ju(&w[0]) as u16, ju(&w[1]) as u8); }
  for (reg, key) in REGS.iter() {
    if p[*key] != prev[*key] { memory_write_byte(mp, *reg, ju(&p[*key]) as u8); }
  }
}

pub fn run(args: &[String]) {
  let scenes = read_ndjson(&arg_value(args, "--scenes").expect("--scenes"));
  let outp = arg_value(args, "--out").expect("--out");
  silence_panics();
  let mut rng = Rng::new(seed_from_env() ^ 0x7a5);
  let res = run_isolated(scenes.len(), |i, out| {
    let sc = &scenes[i];
    let mut core = plain_core();
    // base scene at the start of VBlank (the position after power-on)
    for (k, v) in sc["vram"].as_array().unwrap().iter().enumerate() { core.memory.video_ram[k] = ju(v) as u8; }
    for (k, v) in sc["oam"].as_array().unwrap().iter().enumerate() { core.memory.oam_ram[k] = ju(v) as u8; }
    let mp = mem_ptr(&mut core);
    for (reg, key) in REGS.iter() { memory_write_byte(mp, *reg, ju(&sc[*key]) as u8); }
    let patches = sc["patches"].as_array().unwrap();
    let mut left = 70224usize;
    let mut next = 0usize;
    let mut prev: Value = sc.clone();
    let mut skipped = 0;
    // where inside the blanking interval the next patch is written
    let mut at = 4 * rng.below(46) as usize;
    while left > 0 {
      if next < patches.len() {
        let line = ju(&patches[next]["line"]) as u8;
        let (l, mode, dots) = core.memory.io.video.verif_position();
        let due = if line == 0 { mode == 1 && (l as usize - 144) * 456 + dots >= at * 20 }
                  else { mode == 0 && l == line - 1 && dots >= at };
        if due {
          apply(&mut core, &patches[next], &prev);
          prev = patches[next].clone();
          next += 1;
          at = 4 * rng.below(46) as usize;
          continue;
        }
        // (a patch whose interval has already gone by would mean the driver is wrong, not the PPU)
        if line != 0 && mode != 1 && l >= line { skipped += 1; next += 1; continue; }
        advance(&mut core, 4);
        left -= 4;
      } else {
        let b = (4 * (1 + rng.below(300) as usize)).min(left);
        advance(&mut core, b);
        left -= b;
      }
    }
    let frame: Vec<u8> = core.memory.io.video.get_visible_buffer().to_vec();
    let mut rec = sc.clone();
    rec["frame"] = json!(frame);
    rec["skipped"] = json!(skipped);
    rec["applied"] = json!(next);
    out.extend_from_slice(rec.to_string().as_bytes()); out.push(b'\n');
  });
  let mut f = std::io::BufWriter::new(std::fs::File::create(&outp).unwrap());
  for l in &res.lines { writeln!(f, "{}", l).unwrap(); }
  for (g, st) in &res.crashes { println!("{}", json!({"kind": "crash", "id": scenes[*g]["id"], "status": describe_status(*st)})); }
  println!("{}", json!({"kind": "summary", "scenes": scenes.len(), "rendered": res.lines.len(), "crashes": res.crashes.len()}));
}
