--------------------------- MODULE Gen_CacheHist ---------------------------
(***************************************************************************)
(* spec -> impl for C03: every history of length <= MaxLen of the          *)
(* CodeCache model over bank writes and block executions (low address and  *)
(* two addresses of the switchable bank), with the code id the model says  *)
(* must execute at every Run.  Each history is materialised by the driver  *)
(* as a program on a multi-bank ROM whose blocks load their own bank.      *)
(* Environment: OUT, MAXLEN, SHARD, SHARDS.                                *)
(***************************************************************************)
EXTENDS Integers, Sequences, TLC, IOUtils, Json

Env(name, default) == IF name \in DOMAIN IOEnv THEN IOEnv[name] ELSE default
OutFile == Env("OUT", "/tmp/gen_cachehist.ndjson")
MaxLen  == atoi(Env("MAXLEN", "4"))
Shard   == atoi(Env("SHARD", "0"))
Shards  == atoi(Env("SHARDS", "1"))

\* symbols 0..2: switch to bank 1..3; 3: run the low block; 4, 5: run high block 0 / 1;
\* with NSYM = 9 also 6..8: switch to bank 1..3 from a routine in work RAM that jumps straight into high block 0
NSym == atoi(Env("NSYM", "6"))
RECURSIVE PowR(_, _)
PowR(b, e) == IF e = 0 THEN 1 ELSE b * PowR(b, e - 1)
CountUpTo(n) == IF n = 0 THEN 0 ELSE LET RECURSIVE S(_) S(k) == IF k = 0 THEN 0 ELSE PowR(NSym, k) + S(k - 1) IN S(n)
Total == CountUpTo(MaxLen)

\* the k-th history (k from 0): histories are ordered by length, then as base-6 numerals
RECURSIVE LenOf(_, _)
LenOf(k, n) == IF k < PowR(NSym, n) THEN n ELSE LenOf(k - PowR(NSym, n), n + 1)
RECURSIVE Offset(_, _)
Offset(k, n) == IF k < PowR(NSym, n) THEN k ELSE Offset(k - PowR(NSym, n), n + 1)
Digits(v, n) == [i \in 1..n |-> (v \div PowR(NSym, n - i)) % NSym]
Hist(k) == Digits(Offset(k, 1), LenOf(k, 1))

\* the model's verdict for a history: the bank whose code must run at each step (0 for switches / the low block)
RECURSIVE Expect(_, _, _)
Expect(h, i, bank) ==
  IF i > Len(h) THEN << >>
  ELSE LET sym == h[i] IN
       IF sym < 3 THEN <<-1>> \o Expect(h, i + 1, sym + 1)
       ELSE IF sym = 3 THEN <<0>> \o Expect(h, i + 1, bank)
       ELSE IF sym < 6 THEN <<bank>> \o Expect(h, i + 1, bank)
       ELSE <<sym - 5>> \o Expect(h, i + 1, sym - 5)

Count == IF Total > Shard THEN ((Total - 1 - Shard) \div Shards) + 1 ELSE 0
ASSUME PrintT(<<"GEN_CACHEHIST", Total, Count>>)
ASSUME ndJsonSerialize(OutFile, [j \in 1..Count |->
         LET k == Shard + (j - 1) * Shards  h == Hist(k) IN [id |-> k, steps |-> h, expect |-> Expect(h, 1, 1)]])
=============================================================================
