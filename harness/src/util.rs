//! Small utilities: deterministic PRNG, process isolation, JSON helpers.
use std::io::{Read, Write};

#[derive(Clone)]
pub struct Rng(pub u64);
impl Rng {
  pub fn new(seed: u64) -> Self { Rng(seed ^ 0x9e3779b97f4a7c15) }
  pub fn next(&mut self) -> u64 {
    self.0 = self.0.wrapping_add(0x9e3779b97f4a7c15);
    let mut z = self.0;
    z = (z ^ (z >> 30)).wrapping_mul(0xbf58476d1ce4e5b9);
    z = (z ^ (z >> 27)).wrapping_mul(0x94d049bb133111eb);
    z ^ (z >> 31)
  }
  pub fn below(&mut self, n: u64) -> u64 { if n == 0 { 0 } else { self.next() % n } }
  pub fn byte(&mut self) -> u8 { self.next() as u8 }
  pub fn word(&mut self) -> u16 { self.next() as u16 }
  pub fn pick<'a, T>(&mut self, xs: &'a [T]) -> &'a T { &xs[self.below(xs.len() as u64) as usize] }
  pub fn chance(&mut self, num: u64, den: u64) -> bool { self.below(den) < num }
}

pub fn seed_from_env() -> u64 {
  std::env::var("VERIF_SEED").ok().and_then(|s| s.parse::<u64>().ok()).unwrap_or(1)
}

pub fn silence_panics() {
  if std::env::var("GBV_NOISY").is_ok() { return; }
  std::panic::set_hook(Box::new(|_| {}));
}

/// seconds a single isolated case may take before it is killed (set GBV_CASE_TIMEOUT to change)
pub static mut CASE_TIMEOUT_S: u32 = 10;

/// Result of running cases in isolated child processes.
pub struct Isolated {
  /// lines produced by the children (complete up to every confirmed marker)
  pub lines: Vec<String>,
  /// indices of cases during which the child process died, with the wait status
  pub crashes: Vec<(usize, i32)>,
  /// the run was abandoned after too many crashes
  pub truncated: bool,
}

/// Run `f(i, out)` for i in 0..n inside forked children. A child that dies
/// (signal, abort, exit != 0) is attributed to the case it announced in shared
/// memory; the parent restarts after the last confirmed case, skipping known
/// crashers. `f` appends whole lines to `out`.
pub fn run_isolated<F: FnMut(usize, &mut Vec<u8>)>(n: usize, f: F) -> Isolated {
  run_isolated_max(n, 24, f)
}

/// As run_isolated, but gives up after `max_crashes` dead workers (`truncated` is set): a change
/// that makes every case crash must not turn the check into an hours-long fork storm.
pub fn run_isolated_max<F: FnMut(usize, &mut Vec<u8>)>(n: usize, max_crashes: usize, mut f: F) -> Isolated {
  let mut lines: Vec<String> = Vec::new();
  let mut crashes: Vec<(usize, i32)> = Vec::new();
  let mut truncated = false;
  let mut timeouts = 0usize;
  let progress = unsafe {
    libc::mmap(std::ptr::null_mut(), 4096, libc::PROT_READ | libc::PROT_WRITE,
      libc::MAP_SHARED | libc::MAP_ANONYMOUS, -1, 0) as *mut i64
  };
  let mut next = 0usize;
  while next < n {
    let mut fds = [0i32; 2];
    unsafe { libc::pipe(fds.as_mut_ptr()); }
    unsafe { std::ptr::write_volatile(progress, -1); }
    let pid = unsafe { libc::fork() };
    if pid == 0 {
      // child
      unsafe { libc::close(fds[0]); }
      let mut buf: Vec<u8> = Vec::with_capacity(1 << 16);
      let wfd = fds[1];
      let flush = |b: &mut Vec<u8>| {
        let mut off = 0;
        while off < b.len() {
          let r = unsafe { libc::write(wfd, b[off..].as_ptr() as *const libc::c_void, b.len() - off) };
          if r <= 0 { unsafe { libc::_exit(3); } }
          off += r as usize;
        }
        b.clear();
      };
      for i in next..n {
        if crashes.iter().any(|c| c.0 == i) { continue; }
        unsafe { std::ptr::write_volatile(progress, i as i64); }
        // watchdog: a case that does not return (e.g. a frame-stepping loop that never ends) is killed
        // by SIGALRM and attributed to this case like any other crash
        unsafe { libc::alarm(CASE_TIMEOUT_S); }
        f(i, &mut buf);
        unsafe { libc::alarm(0); }
        buf.extend_from_slice(format!("#D {}\n", i).as_bytes());
        if buf.len() > (1 << 15) { flush(&mut buf); }
      }
      flush(&mut buf);
      unsafe { libc::_exit(0); }
    }
    unsafe { libc::close(fds[1]); }
    let mut data: Vec<u8> = Vec::new();
    {
      let mut tmp = [0u8; 1 << 16];
      loop {
        let r = unsafe { libc::read(fds[0], tmp.as_mut_ptr() as *mut libc::c_void, tmp.len()) };
        if r <= 0 { break; }
        data.extend_from_slice(&tmp[..r as usize]);
      }
      unsafe { libc::close(fds[0]); }
    }
    let mut status: i32 = 0;
    unsafe { libc::waitpid(pid, &mut status, 0); }
    // keep everything up to the last complete marker
    let text = String::from_utf8_lossy(&data).to_string();
    let mut pending: Vec<String> = Vec::new();
    let mut last_done: Option<usize> = None;
    for line in text.split('\n') {
      if line.starts_with("#D ") {
        if let Ok(i) = line[3..].trim().parse::<usize>() {
          last_done = Some(i);
          lines.append(&mut pending);
        }
      } else if !line.is_empty() {
        pending.push(line.to_string());
      }
    }
    let clean = libc::WIFEXITED(status) && libc::WEXITSTATUS(status) == 0;
    if clean {
      break;
    }
    let crashed = unsafe { std::ptr::read_volatile(progress) };
    if crashed < 0 {
      // died before announcing anything: give up on the rest
      crashes.push((next, status));
      break;
    }
    crashes.push((crashed as usize, status));
    if libc::WIFSIGNALED(status) && libc::WTERMSIG(status) == libc::SIGALRM { timeouts += 1; }
    // two cases that never return are enough evidence; waiting for more would stall the check
    if crashes.len() >= max_crashes || timeouts >= 2 { truncated = true; break; }
    next = match last_done { Some(d) => d + 1, None => next };
    // the crasher itself is skipped by the child loop; make sure we advance past it
    if next == crashed as usize { next += 1; }
  }
  unsafe { libc::munmap(progress as *mut libc::c_void, 4096); }
  Isolated { lines, crashes, truncated }
}

pub fn describe_status(status: i32) -> String {
  if libc::WIFSIGNALED(status) && libc::WTERMSIG(status) == libc::SIGALRM {
    "timeout (did not return)".to_string()
  } else if libc::WIFSIGNALED(status) {
    format!("signal {}", libc::WTERMSIG(status))
  } else if libc::WIFEXITED(status) {
    format!("exit {}", libc::WEXITSTATUS(status))
  } else {
    format!("status {}", status)
  }
}

pub fn read_ndjson(path: &str) -> Vec<serde_json::Value> {
  let mut s = String::new();
  std::fs::File::open(path).unwrap_or_else(|e| { eprintln!("cannot open {}: {}", path, e); std::process::exit(2) })
    .read_to_string(&mut s).unwrap();
  s.lines().filter(|l| !l.trim().is_empty()).map(|l| serde_json::from_str(l).unwrap_or_else(|e| {
    eprintln!("bad json in {}: {}", path, e); std::process::exit(2) })).collect()
}

pub fn arg_value(args: &[String], name: &str) -> Option<String> {
  args.iter().position(|a| a == name).and_then(|i| args.get(i + 1).cloned())
}

pub fn arg_usize(args: &[String], name: &str, default: usize) -> usize {
  arg_value(args, name).and_then(|s| s.parse().ok()).unwrap_or(default)
}

pub fn ju(v: &serde_json::Value) -> u64 { v.as_u64().unwrap_or_else(|| v.as_i64().unwrap_or(0) as u64) }
pub fn ji(v: &serde_json::Value) -> i64 { v.as_i64().unwrap_or(0) }
