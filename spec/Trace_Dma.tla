------------------------------ MODULE Trace_Dma ------------------------------
(***************************************************************************)
(* impl -> spec: validates recorded OAM DMA histories against Dma.tla with *)
(* the real length 160.  Records:                                          *)
(*  reset                      fresh machine                               *)
(*  start  arg=page            guest write of page to 0xFF46               *)
(*  adv    arg=clocks, src     elapsed time (multiple of 4); src = the 160 *)
(*                             bytes the memory map shows at page*256+i    *)
(*                             just before the batch                       *)
(*  edit   arg=addr, val       a guest write elsewhere (source edits)      *)
(*  oamw   arg=index, val      a guest write to OAM itself                 *)
(* every record carries act/off (DMA progress through the hook), oam (the  *)
(* 160 OAM bytes afterwards) and oh (hash of all other memory).            *)
(***************************************************************************)
EXTENDS Dma, TLC, IOUtils, Json

Recs == ndJsonDeserialize(IOEnv.TRACE)
VARIABLES d, oam, other, l
Idx == 0..159
Fn(seq) == [i \in Idx |-> seq[i + 1]]

Init == d = Idle /\ oam = [i \in Idx |-> 0] /\ other = "" /\ l = 1
IsEvent(e) == l <= Len(Recs) /\ Recs[l].ev = e /\ l' = l + 1
ObsOK == /\ oam' = Fn(Recs[l].oam)
         /\ Recs[l].act = B2N(d'.active)
         /\ d'.active => (Recs[l].off = d'.off /\ Recs[l].page = d'.page)

Reset == IsEvent("reset") /\ d' = Idle /\ oam' = [i \in Idx |-> 0] /\ other' = Recs[l].oh /\ ObsOK
StartE == IsEvent("start") /\ d' = Start(Recs[l].arg) /\ UNCHANGED oam /\ other' = other /\ Recs[l].oh = other /\ ObsOK
Adv == IsEvent("adv") /\ LET r == Run(d, oam, Fn(Recs[l].src), Recs[l].arg \div 4, 160) IN
         /\ d' = r.d /\ oam' = r.oam /\ other' = other /\ Recs[l].oh = other /\ ObsOK
Edit == IsEvent("edit") /\ UNCHANGED <<d, oam>> /\ other' = Recs[l].oh /\ ObsOK
OamW == IsEvent("oamw") /\ UNCHANGED d /\ oam' = [oam EXCEPT ![Recs[l].arg] = Recs[l].val]
         /\ other' = other /\ Recs[l].oh = other /\ ObsOK
Next == Reset \/ StartE \/ Adv \/ Edit \/ OamW
TraceSpec == Init /\ [][Next]_<<d, oam, other, l>>

Matched == TLCGet("stats").diameter - 1
TraceAccepted ==
  IF Matched = Len(Recs) THEN PrintT(<<"TRACE_OK", Len(Recs)>>)
  ELSE /\ PrintT(<<"TRACE_REJECTED", Matched + 1, ToJson(Recs[Matched + 1])>>)
       /\ FALSE
=============================================================================
