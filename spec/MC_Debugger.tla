----------------------------- MODULE MC_Debugger -----------------------------
(***************************************************************************)
(* Model checking of the command-parser specification (C20): lines are     *)
(* built code point by code point over an alphabet that contains command   *)
(* letters in both cases, digits, the hexadecimal prefix, a sign, ASCII and *)
(* non-ASCII white space and a non-ASCII letter.  For every line up to     *)
(* MaxLen: some result is permitted (the parser specification is total),   *)
(* and exactly one unless the line uses a notation the statement is silent *)
(* about (sign, 0X, trailing tokens, non-ASCII command word).              *)
(***************************************************************************)
EXTENDS Debugger, TLC

CONSTANTS Alphabet, MaxLen
VARIABLES line
Init == line = << >>
Next == Len(line) < MaxLen /\ \E ch \in Alphabet : line' = Append(line, ch)
Spec == Init /\ [][Next]_line

Candidates(l) ==
  LET toks == Tokens(l)
      addrs == IF Len(toks) >= 2 THEN Addresses(toks[2]).may ELSE {}
  IN {NoResult, <<"continue">>, <<"step">>, <<"regs">>} \cup {<<"break", a>> : a \in addrs} \cup {<<"mem", a>> : a \in addrs}
Permitted(l) == {r \in Candidates(l) : Permits(l, r)}
Total == Permitted(line) # {}
Silent(l) == LET toks == Tokens(l) IN
  \/ (toks # << >> /\ ~IsAscii(toks[1]))
  \/ Len(toks) > 2
  \/ (Len(toks) = 2 /\ (Addresses(toks[2]).silent \/ ~IsAscii(toks[2]) \/ Word(toks[1]) \in {C_, CONTINUE, S_, STEP}))
Deterministic == ~Silent(line) => Cardinality(Permitted(line)) = 1
\* white space around and between tokens never changes the permitted results
SpaceInsensitive == Permitted(line) = Permitted(<<32>> \o line \o <<9>>)
=============================================================================
