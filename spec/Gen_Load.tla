------------------------------- MODULE Gen_Load -------------------------------
(***************************************************************************)
(* spec -> impl for C19: ROM files (header contents and file length) with  *)
(* the loader's decision according to Cart!Load.                           *)
(*  family "checksum": every checksum byte x controller types               *)
(*  family "type":     every type byte, valid checksum                     *)
(*  family "sizes":    ROM-size codes (table and non-table) x RAM-size     *)
(*                     codes x types x file lengths around 0x100, 0x150    *)
(*                     and the declared size                               *)
(*  family "tables":   all 256 ROM-size and RAM-size codes (decoded sizes) *)
(* The other header bytes are pseudo-random.                               *)
(***************************************************************************)
EXTENDS Cart, TLC, IOUtils, Json, FiniteSets

OutFile == IF "OUT" \in DOMAIN IOEnv THEN IOEnv.OUT ELSE "/tmp/gen_load.ndjson"
Rnd(id, k) == ((((id % 7919) * 31 + k) * 8191 + (id \div 7919) * 2503) % 65521) % 256

\* header with given type / size codes; checksum byte = valid + delta (mod 256)
Hdr(id, t, rc, mc, delta) ==
  LET base == [i \in 1..80 |-> IF i = 72 THEN t ELSE IF i = 73 THEN rc ELSE IF i = 74 THEN mc ELSE IF i = 78 THEN 0
                               ELSE IF i <= 4 THEN <<0, 195, 80, 1>>[i]                 \* entry point: NOP ; JP 0x0150
                               ELSE IF i >= 53 /\ i <= 63 THEN 65 + (Rnd(id, i) % 26)    \* title: capital letters
                               ELSE Rnd(id, i)]
      good == HeaderChecksum(base)
  IN [base EXCEPT ![78] = (good + delta) % 256]

Declared(rc) == 16384 * RomBanksOfCode(rc)
Case(id, fam, t, rc, mc, delta, fileLen) ==
  LET h == Hdr(id, t, rc, mc, delta) IN
  [id |-> id, fam |-> fam, hdr |-> h, fileLen |-> fileLen, exp |-> Load(fileLen, h),
   romsize |-> Declared(rc), ramsize |-> RamBytesOfCode(mc), kind |-> KindOfType(t)]

Types3 == <<0, 1, 19, 5>>
ChecksumFam == [k \in 1..(256 * 4) |-> LET d == (k - 1) % 256  t == Types3[((k - 1) \div 256) + 1] IN Case(k, "checksum", t, 0, 0, d, 32768)]
TypeFam == [k \in 1..512 |-> LET t == (k - 1) % 256  big == (k - 1) \div 256 IN
              Case(2000 + k, "type", t, IF big = 1 THEN 1 ELSE 0, IF big = 1 THEN 2 ELSE 0, 0, 65536)]
RomC == <<0, 1, 2, 3, 4, 5, 6, 7, 8, 82, 83, 84, 9, 81, 255>>
RamC == <<0, 1, 2, 3, 4, 5, 6, 255>>
TypS == <<0, 1, 19>>
LenKinds == 8
LenOf(kind, rc) == CASE kind = 0 -> 0 [] kind = 1 -> 255 [] kind = 2 -> 256 [] kind = 3 -> 335 [] kind = 4 -> 336
                     [] kind = 5 -> Declared(rc) - 1 [] kind = 6 -> Declared(rc) [] OTHER -> Declared(rc) + 1
SizesFam == [k \in 1..(15 * 8 * 3 * 8) |->
   LET i == k - 1  rc == RomC[(i % 15) + 1]  mc == RamC[((i \div 15) % 8) + 1]  t == TypS[((i \div 120) % 3) + 1]  lk == (i \div 360) % 8
   IN Case(4000 + k, "sizes", t, rc, mc, 0, LenOf(lk, rc))]
TablesFam == [k \in 1..512 |-> LET v == (k - 1) % 256 IN
   IF k <= 256 THEN Case(9000 + k, "tables", 0, v, 0, 0, 8 * 1024 * 1024) ELSE Case(9000 + k, "tables", 0, 0, v, 0, 32768)]

\* family "bytes": the checksum is a sum over bytes 0x134-0x14C, so every byte value matters at every position:
\* a header filled with one value v (all 256), and a single 0xFF / 0x00 / 0x80 at each of the 25 positions
FillHdr(v, t, delta) ==
  LET base == [i \in 1..80 |-> IF i = 72 THEN t ELSE IF i = 73 \/ i = 74 THEN 0 ELSE IF i = 78 THEN 0
                               ELSE IF i <= 4 THEN <<0, 195, 80, 1>>[i] ELSE IF i >= 53 /\ i <= 77 THEN v ELSE 0]
      good == HeaderChecksum(base)
  IN [base EXCEPT ![78] = (good + delta) % 256]
OneHdr(pos, v, delta) ==
  LET base == [i \in 1..80 |-> IF i = 72 \/ i = 73 \/ i = 74 THEN (IF i = pos THEN v % 2 ELSE 0) ELSE IF i = 78 THEN 0
                               ELSE IF i <= 4 THEN <<0, 195, 80, 1>>[i] ELSE IF i = pos THEN v ELSE IF i >= 53 /\ i <= 63 THEN 65 ELSE 0]
      good == HeaderChecksum(base)
  IN [base EXCEPT ![78] = (good + delta) % 256]
RawCase(id, fam, h, fileLen) ==
  [id |-> id, fam |-> fam, hdr |-> h, fileLen |-> fileLen, exp |-> Load(fileLen, h),
   romsize |-> Declared(h[73]), ramsize |-> RamBytesOfCode(h[74]), kind |-> KindOfType(h[72])]
Deltas == <<0, 1, 255>>
BytesFam == [k \in 1..(256 * 3) |-> RawCase(12000 + k, "bytes", FillHdr((k - 1) % 256, 0, Deltas[((k - 1) \div 256) + 1]), 32768)]
            \o [k \in 1..(25 * 3 * 3) |-> LET i == k - 1 IN
                  RawCase(13000 + k, "bytes", OneHdr(53 + (i % 25), <<255, 0, 128>>[((i \div 25) % 3) + 1], Deltas[(i \div 75) + 1]), 32768)]

All == ChecksumFam \o TypeFam \o SizesFam \o TablesFam \o BytesFam
\* model-level sanity: acceptance implies a valid checksum, a supported type and a file at least as long as declared
ASSUME \A i \in 1..Len(All) : All[i].exp.ok =>
          (HeaderChecksum(All[i].hdr) = All[i].hdr[78] /\ All[i].kind # "unsupported" /\ All[i].fileLen >= All[i].romsize)
ASSUME Cardinality({i \in 1..Len(All) : All[i].exp.ok}) > 100 /\ Cardinality({i \in 1..Len(All) : ~All[i].exp.ok}) > 100
ASSUME ndJsonSerialize(OutFile, All)
ASSUME PrintT(<<"GEN_LOAD", Len(All)>>)
=============================================================================
