------------------------------- MODULE Thm_Alu -------------------------------
(***************************************************************************)
(* Theorems about the data semantics in SM83Alu that do not mention the    *)
(* implementation: they cross-examine the specification itself (BCD        *)
(* arithmetic, algebraic identities, inverses).  Checked exhaustively by   *)
(* TLC as ASSUMEs.                                                         *)
(***************************************************************************)
EXTENDS SM83Alu, TLC

Bcd(n) == (n \div 10) * 16 + (n % 10)      \* n in 0..99
IsBcd(b) == Nib(b) < 10 /\ (b \div 16) < 10
BcdVal(b) == (b \div 16) * 10 + Nib(b)

FlagsOK(f) == f \in {16 * k : k \in 0..15}

\* DAA after ADD/ADC of two BCD bytes gives the BCD sum and decimal carry
ASSUME BcdAdd ==
  \A x \in 0..99, y \in 0..99, c \in 0..1 :
    LET s == Add8(Bcd(x), Bcd(y), c)
        d == Daa(s.r, s.f)
    IN /\ d.r = Bcd((x + y + c) % 100)
       /\ Cf(d.f) = B2N(x + y + c > 99)
       /\ Zf(d.f) = B2N((x + y + c) % 100 = 0)
       /\ Hf(d.f) = 0 /\ Nf(d.f) = 0

\* DAA after SUB/SBC of two BCD bytes gives the BCD difference and decimal borrow
ASSUME BcdSub ==
  \A x \in 0..99, y \in 0..99, c \in 0..1 :
    LET s == Sub8(Bcd(x), Bcd(y), c)
        d == Daa(s.r, s.f)
    IN /\ d.r = Bcd((x - y - c) % 100)
       /\ Cf(d.f) = B2N(x < y + c)
       /\ Nf(d.f) = 1 /\ Hf(d.f) = 0

\* SUB is ADC of the complement with carry-in 1, C and H complemented
ASSUME SubIsComplementAdd ==
  \A a \in Byte, b \in Byte, c \in 0..1 :
    LET s == Sub8(a, b, c)
        t == Add8(a, 255 - b, 1 - c)
    IN s.r = t.r /\ Cf(s.f) = 1 - Cf(t.f) /\ Hf(s.f) = 1 - Hf(t.f) /\ Zf(s.f) = Zf(t.f)

\* CP is SUB without write-back; INC/DEC are ADD/SUB 1 with C preserved
ASSUME CpIncDec ==
  \A a \in Byte, f \in {0, 16, 128, 240} :
    /\ \A b \in Byte : AluBin(7, a, b, f).f = AluBin(2, a, b, f).f /\ AluBin(7, a, b, f).r = a
    /\ LET i == Inc8(a, f)  s == Add8(a, 1, 0) IN
         i.r = s.r /\ Zf(i.f) = Zf(s.f) /\ Hf(i.f) = Hf(s.f) /\ Nf(i.f) = 0 /\ Cf(i.f) = Cf(f)
    /\ LET d == Dec8(a, f)  s == Sub8(a, 1, 0) IN
         d.r = s.r /\ Zf(d.f) = Zf(s.f) /\ Hf(d.f) = Hf(s.f) /\ Nf(d.f) = 1 /\ Cf(d.f) = Cf(f)

\* every result is a byte and every flag byte has a zero low nibble
ASSUME Ranges ==
  \A a \in Byte, f \in {16 * k : k \in 0..15} :
    /\ \A fn \in 0..7, b \in {0, 1, 15, 16, 127, 128, 255, a} :
         AluBin(fn, a, b, f).r \in Byte /\ FlagsOK(AluBin(fn, a, b, f).f)
    /\ \A rk \in 0..7 : RotCB(rk, a, f).r \in Byte /\ FlagsOK(RotCB(rk, a, f).f)
    /\ \A y \in 0..7 : AccOp(y, a, f).r \in Byte /\ FlagsOK(AccOp(y, a, f).f)
    /\ Inc8(a, f).r \in Byte /\ Dec8(a, f).r \in Byte

\* inverses: RRC.RLC, RR.RL (through carry), SWAP.SWAP, CPL.CPL
ASSUME Inverses ==
  \A a \in Byte, f \in {0, 16} :
    /\ RotCB(1, RotCB(0, a, f).r, f).r = a
    /\ (LET l == RotCB(2, a, f) IN RotCB(3, l.r, l.f).r = a /\ Cf(RotCB(3, l.r, l.f).f) = Cf(f))
    /\ RotCB(6, RotCB(6, a, f).r, f).r = a
    /\ Cpl(Cpl(a, f).r, f).r = a
    /\ Cf(Ccf(a, Ccf(a, f).f).f) = Cf(f) /\ Cf(Scf(a, f).f) = 1

\* ADD HL,rr is byte-wise ADD then ADC; Z preserved, N cleared
ASSUME AddHLBytewise ==
  \A hl \in {256 * h + l : h \in {0, 1, 15, 16, 127, 128, 239, 240, 255}, l \in Byte},
     rr \in {256 * h + l : h \in {0, 1, 15, 16, 127, 128, 240, 255}, l \in {0, 1, 127, 128, 255}},
     f \in {0, 128, 112, 240} :
    LET lo == Add8(Lo(hl), Lo(rr), 0)
        hi == Add8(Hi(hl), Hi(rr), Cf(lo.f))
        v  == AddHL(hl, rr, f)
    IN v.r = Mk16(hi.r, lo.r) /\ Hf(v.f) = Hf(hi.f) /\ Cf(v.f) = Cf(hi.f) /\ Zf(v.f) = Zf(f) /\ Nf(v.f) = 0

\* ADD SP,e flags are those of the low-byte ADD; the result is the signed sum
ASSUME AddSPLowByte ==
  \A sp \in {256 * h + l : h \in {0, 127, 128, 255}, l \in Byte}, e \in Byte :
    LET v == AddSPe(sp, e, 240)
        lo == Add8(Lo(sp), e, 0)
    IN /\ Hf(v.f) = Hf(lo.f) /\ Cf(v.f) = Cf(lo.f) /\ Zf(v.f) = 0 /\ Nf(v.f) = 0
       /\ Lo(v.r) = lo.r
       /\ Hi(v.r) = (Hi(sp) + Cf(lo.f) - (IF e >= 128 THEN 1 ELSE 0)) % 256
=============================================================================
