"""Per-property check pipelines. Each function receives a vlib.Check, runs the
TLC model(s) of the property and the conformance binding, and records
mismatches through ck.mismatch()."""
import json, os, random, hashlib, glob, re
import vlib
from vlib import tlc, gbv, rundir, ToolError

REGISTRY = {}


def prop(name):
    def deco(f):
        REGISTRY[name] = f
        return f
    return deco


def trace_validate(ck, module, path, nrecs, name="trace"):
    """Run a Trace_* validator; a rejection is a violation with the rejected record."""
    r = tlc(module, env={"TRACE": path}, dfs=True, check=False, timeout=1800)
    ck.add_tlc(module, r, mc=True)
    if r.printed("TRACE_OK"):
        ck.traces += 1
        return True
    rej = r.printed("TRACE_REJECTED")
    if not rej:
        raise ToolError("trace validator %s gave no verdict:\n%s" % (module, "\n".join(r.text.splitlines()[-30:])))
    ck.mismatch({"kind": "trace-rejected", "validator": module, "line": rej[0][:2000], "trace": path}, name)
    return False


# ------------------------------------------------------------------- C17
@prop("C17")
def c17(ck):
    ck.rule = ("complete transition relation of Joypad.tla (256 button states x 4 selections x 2 latch states x "
               "20 actions) exported by TLC and replayed on Joypad and through the bus/IF; a case is non-trivial "
               "when the action changes P1 or the latch; plus random recorded histories (presses, selection writes, IF "
               "acknowledgements, device time directly and through Core::update of a halted / stopped CPU, IF bit 4 read after "
               "every event) validated by Trace_Joypad")
    r = tlc("MC_Joypad", workers=4, coverage=True)
    ck.add_tlc("MC_Joypad", r)
    ck.require_coverage(r, ["DoPress", "DoRelease", "DoSelect", "DoCollect"])
    out = os.path.join(rundir(), "joy.ndjson")
    g = tlc("Gen_Joypad", env={"OUT": out})
    ck.add_tlc("Gen_Joypad", g, mc=False)
    cases = vlib.read_ndjson(out)
    if len(cases) != 40960:
        raise ToolError("generator produced %d cases" % len(cases))
    for c in cases:
        if c["exp"]["p1"] != c["exp"]["p1pre"] or c["exp"]["irq"] != c["pend"]:
            ck.nontrivial_count += 1
    ck.sample(cases[37697])
    recs = gbv(["joypad", "--cases", out])
    summ = [x for x in recs if x.get("kind") == "summary"]
    if not summ or summ[0]["cases"] != len(cases):
        raise ToolError("replayer did not finish")
    ck.count(len(cases))
    ck.traces += len(cases)
    ck.exhaustive = True
    for m in recs:
        if m.get("kind") == "mismatch":
            ck.mismatch({"kind": "transition", "act": m["case"]["act"], "fields": m["fields"], "case": m["case"], "obs": m["obs"]},
                        "transition-" + m["case"]["act"] + "-" + "-".join(m["fields"]))
    # impl -> spec
    n = 20000 if ck.tier == "quick" else 400000
    tr = os.path.join(rundir(), "joytrace.ndjson")
    path = vlib.build_harness()
    rc, o, e = vlib.sh([path, "joypad-trace", "--events", str(n)], env={"VERIF_SEED": vlib.seed()})
    if rc < 0:
        raise vlib.CodeCrash([path, "joypad-trace"], rc, e)
    if rc != 0:
        raise ToolError("joypad-trace failed")
    open(tr, "w").write(o)
    ck.count(n)
    trace_validate(ck, "Trace_Joypad", tr, n)
    ck.sample({"trace_excerpt": o.splitlines()[:6]})


def run_to_file(args, path, jit=False, env=None):
    """Run a harness recorder, stdout to file; returns number of lines."""
    exe = vlib.build_harness(jit)
    e = dict(os.environ)
    e["VERIF_SEED"] = str(vlib.seed())
    if env:
        e.update({k: str(v) for k, v in env.items()})
    import subprocess
    with open(path, "w") as f:
        p = subprocess.run([exe] + [str(a) for a in args], stdout=f, stderr=subprocess.PIPE, env=e, cwd=vlib.VERIF, timeout=3600)
    if p.returncode < 0:
        raise vlib.CodeCrash(["gbv"] + list(args), p.returncode, p.stderr.decode(errors="replace"))
    if p.returncode != 0:
        raise ToolError("recorder failed rc=%d: %s\n%s" % (p.returncode, args[:3], p.stderr.decode(errors="replace")[-2000:]))
    n = 0
    with open(path) as f:
        for _ in f:
            n += 1
    return n, p.stderr.decode(errors="replace")


def head_lines(path, k=5):
    out = []
    with open(path) as f:
        for i, line in enumerate(f):
            if i >= k:
                break
            out.append(json.loads(line))
    return out


# ------------------------------------------------------------------- C13
@prop("C13")
def c13(ck):
    thorough = ck.tier == "thorough"
    ck.rule = ("recorded timer histories (register writes through the bus, batches of 1..100000 clocks through "
               "Timer::run_cycles and MemoryAreas::run_clock_cycles, divider phase set by hook) validated event by "
               "event against Timer.tla; each event is a distinct case; non-trivial = changes TIMA or raises a request")
    jobs = [dict(module="MC_Timer", cfg="MC_Timer_deep" if thorough else "MC_Timer", workers=6, coverage=True, timeout=3000),
            dict(module="Thm_Timer", env={"DEEP": "1"} if thorough else {}, timeout=3000)]
    mc, thm = vlib.tlc_parallel(jobs)
    ck.add_tlc("MC_Timer", mc)
    ck.require_coverage(mc, ["DoAdvance", "DoWrTAC", "DoWrTIMA", "DoWrTMA", "DoWrDIV"])
    ck.add_tlc("Thm_Timer", thm, mc=False)
    if thorough:
        # unbounded in the divider phase and in both batch lengths (up to 2^24 clocks): divider and increment count are additive
        ap = {"edges_additive": vlib.apalache("ApaTimer.tla", ["--init=Init", "--inv=EdgesAdditive", "--length=0"]),
              "additive_before_overflow": vlib.apalache("ApaTimer.tla", ["--init=Init", "--inv=AdditiveNoOverflow", "--length=0"])}
        ck.extra["apalache_timer_additivity"] = ap
        if any(v == "Error" for v in ap.values()):          # (a time-out is recorded as "unknown", not raised)
            raise ToolError("Apalache refutes the timer's additivity: %s" % ap)
    scale = 20 if thorough else 1
    runs = [("random", ["timer-trace", "--mode", "random", "--events", 60000 * scale]),
            ("sweep", ["timer-trace", "--mode", "sweep", "--events", 40000 * scale]),
            ("partitions", ["timer-partitions", "--scenarios", 12 * scale])]
    for name, args in runs:
        path = os.path.join(rundir(), "timer_%s.ndjson" % name)
        n, err = run_to_file(args, path)
        ck.count(n)
        prev = None
        with open(path) as f:
            for line in f:
                r = json.loads(line)
                if prev is not None and r["ev"] != "reset" and (r["tima"] != prev["tima"] or r["irq"]):
                    ck.nontrivial_count += 1
                prev = r
        if name == "partitions":
            for line in err.splitlines():
                if line.startswith("{"):
                    s = json.loads(line)
                    if not s["same"]:
                        ck.mismatch({"kind": "partition-dependent", "scenario": s}, "partition")
        ck.sample({"recorder": name, "events": head_lines(path, 6)})
        trace_validate(ck, "Trace_Timer", path, n, "trace-" + name)


# ------------------------------------------------------------------- C14
@prop("C14")
def c14(ck):
    thorough = ck.tier == "thorough"
    ck.rule = ("recorded LCD histories (batches that are multiples of 4 clocks, STAT/LYC writes through the bus, start "
               "positions set by hook in modes 0/1, all 16 STAT masks x 7 LYC values over >3 frames in random partitions) "
               "and writes to read-only LY and the other LCD-page registers, validated event by event against Lcd.tla; "
               "non-trivial = the event changes LY/mode or raises a request")
    jobs = [dict(module="MC_Lcd", cfg="MC_Lcd_deep" if thorough else "MC_Lcd", workers=6, coverage=True, timeout=3000),
            dict(module="Thm_Lcd", env={"DEEP": "1"} if thorough else {}, timeout=3000)]
    mc, thm = vlib.tlc_parallel(jobs)
    ck.add_tlc("MC_Lcd", mc)
    ck.require_coverage(mc, ["DoAdvance", "DoWriteSTAT", "DoWriteLYC"])
    ck.add_tlc("Thm_Lcd", thm, mc=False)
    if thorough:
        # for every position, event position and batch lengths up to 2^24 clocks (TLC's Thm_Lcd enumerates a grid)
        ck.extra["apalache_lcd_additivity"] = {
            "passed_additive": vlib.apalache("ApaLcd.tla", ["--init=Init", "--inv=PassedAdditive", "--length=0"]),
            "passed_once_per_frame": vlib.apalache("ApaLcd.tla", ["--init=Init", "--inv=PassedOncePerFrame", "--length=0"])}
        if "Error" in ck.extra["apalache_lcd_additivity"].values():
            raise ToolError("Apalache refutes the LCD schedule's additivity: %s" % ck.extra["apalache_lcd_additivity"])
    scale = 20 if thorough else 1
    for name, n in [("random", 40000 * scale), ("frames", 60000 * scale)]:
        path = os.path.join(rundir(), "lcd_%s.ndjson" % name)
        cnt, _ = run_to_file(["lcd-trace", "--mode", name, "--events", n], path)
        if cnt == 0:
            raise ToolError("empty LCD trace")
        ck.count(cnt)
        prev = None
        with open(path) as f:
            for line in f:
                r = json.loads(line)
                if prev is not None and (r["ly"] != prev["ly"] or r["stat"] != prev["stat"] or r["vb"] or r["st"]):
                    ck.nontrivial_count += 1
                prev = r
        ck.sample({"recorder": name, "events": head_lines(path, 6)})
        trace_validate(ck, "Trace_Lcd", path, cnt, "trace-" + name)


# ------------------------------------------------------------------- C16
@prop("C16")
def c16(ck):
    thorough = ck.tier == "thorough"
    ck.rule = ("recorded OAM DMA histories on an MBC1 machine with random memory: every source page takes its turn, random "
               "batch partitions (1..300 machine cycles), source edits, ROM bank switches, OAM writes and restarts at random progress; each "
               "event validated against Dma.tla (length 160); non-trivial = an adv event that copies at least one byte")
    mc = tlc("MC_Dma", workers=6, coverage=True, timeout=1800)
    ck.add_tlc("MC_Dma", mc)
    ck.require_coverage(mc, ["DoStart", "DoAdvance", "DoModify"])
    if thorough:
        # progress is additive and the transfer is over after exactly 160 machine cycles, for every offset and split
        ck.extra["apalache_dma_progress"] = vlib.apalache("ApaDma.tla", ["--init=Init", "--inv=ProgressAdditive", "--length=0"])
        if ck.extra["apalache_dma_progress"] == "Error":
            raise ToolError("Apalache refutes the DMA's additive progress")
    n = 400000 if thorough else 24000
    path = os.path.join(rundir(), "dma.ndjson")
    cnt, _ = run_to_file(["dma-trace", "--events", n], path)
    if cnt == 0:
        raise ToolError("empty DMA trace")
    ck.count(cnt)
    pages = set()
    prev_off = 0
    with open(path) as f:
        for i, line in enumerate(f):
            r = json.loads(line)
            if r["ev"] == "start":
                pages.add(r["arg"])
            if r["ev"] == "adv" and "src" in r and (r["off"] != prev_off or (r["act"] == 0 and prev_act == 1)):
                ck.nontrivial_count += 1
            prev_off, prev_act = r["off"], r["act"]
            if i == 3:
                ck.sample({k: (v if k not in ("oam", "src") else v[:8] + ["..."]) for k, v in r.items()})
    ck.extra["source_pages_covered"] = len(pages)
    # the transfer at machine level: started by a guest instruction, the CPU then halts, stops, runs, restarts it or
    # edits the source; DMA progress and the bytes written to OAM are part of every validated step
    import gbprog
    dm = gbprog.dma_machine_programs(random.Random(vlib.seed() + 16))
    record_and_validate_machine(ck, dm, "c16machine", jit=False, shards=6)
    record_and_validate_machine(ck, [dict(x, mode="block") for x in dm], "c16machinej", jit=True, shards=6)
    if thorough:
        # TLC reads the whole file; split to keep memory bounded
        parts = split_trace(path, 60000)
    else:
        parts = [path]
    for pth in parts:
        trace_validate(ck, "Trace_Dma", pth, cnt, "trace")


def split_trace(path, maxlines):
    """Split an NDJSON trace at reset records into files of at most ~maxlines lines."""
    parts, cur, n = [], None, 0
    idx = 0
    with open(path) as f:
        for line in f:
            if cur is None or (n >= maxlines and '"ev":"reset"' in line):
                if cur:
                    cur.close()
                idx += 1
                pn = "%s.part%d" % (path, idx)
                parts.append(pn)
                cur = open(pn, "w")
                n = 0
            cur.write(line)
            n += 1
    if cur:
        cur.close()
    return parts


def gen_sharded(ck, module, base, shards, extra_env=None, timeout=1800):
    """Run a Gen_* exporter in parallel TLC processes; returns the file list. The output is a function
    of the specification and the parameters only, so it is cached under out/gencache keyed by their hash
    (nothing from /repo enters it)."""
    shards = min(shards, 12)
    key = hashlib.sha256((vlib.spec_hash() + module + json.dumps(extra_env or {}, sort_keys=True) + str(shards)).encode()).hexdigest()[:24]
    cdir = os.path.join(vlib.OUT, "gencache", key)
    files = [os.path.join(cdir, "%s_%d.ndjson" % (base, i)) for i in range(shards)]
    if os.path.exists(os.path.join(cdir, "done")) and all(os.path.exists(f) for f in files):
        ck.tlc_runs.append({"module": module, "shards": shards, "cached": True})
        return files
    os.makedirs(cdir, exist_ok=True)
    jobs = []
    for i, f in enumerate(files):
        env = {"OUT": f, "SHARD": i, "SHARDS": shards}
        if extra_env:
            env.update(extra_env)
        jobs.append(dict(module=module, env=env, timeout=timeout, xmx="2g", light=True))
    rs = vlib.tlc_parallel(jobs)
    ck.tlc_runs.append({"module": module, "shards": shards, "wall_s": round(max(r.wall for r in rs), 2)})
    open(os.path.join(cdir, "done"), "w").write("ok")
    # keep the cache small: drop all but the 24 most recent entries
    ents = sorted(glob.glob(os.path.join(vlib.OUT, "gencache", "*")), key=os.path.getmtime)
    for e in ents[:-24]:
        import shutil
        shutil.rmtree(e, ignore_errors=True)
    return files


def replay_files(cmd, files, extra=None, jit=False, par=8):
    """Run `gbv <cmd> --cases f` for each file concurrently; returns all JSON records."""
    from concurrent.futures import ThreadPoolExecutor
    def one(f):
        return gbv([cmd, "--cases", f] + (extra or []), jit=jit)
    vlib.build_harness(jit)
    with ThreadPoolExecutor(max_workers=par) as ex:
        outs = list(ex.map(one, files))
    recs = []
    for o in outs:
        recs.extend(o)
    return recs


# ------------------------------------------------------------------- C07
@prop("C07")
def c07(ck):
    ck.rule = ("complete dispatch space of Irq.tla: IF(32) x IE(32) x IME(3) x run state(3) x 15 stack-pointer classes "
               "(work RAM, 0/1/2, 0xFF10/0xFF11, ROM, VRAM, echo, OAM, unused, HRAM, 0xFFFF) x 4 PC values, exported by TLC "
               "and replayed through Core::handle_interrupt and (halted/stopped states) Core::update; non-trivial = a case "
               "with a pending enabled interrupt")
    mc = tlc("MC_Irq", workers=12, coverage=True, timeout=1800)
    ck.add_tlc("MC_Irq", mc)
    ck.require_coverage(mc, ["Check"])
    files = gen_sharded(ck, "Gen_Irq", "irq", 16)
    recs = replay_files("irq", files)
    summ = [r for r in recs if r.get("kind") == "summary"]
    total = sum(s["cases"] for s in summ)
    if len(summ) != len(files) or total != 552960:
        raise ToolError("dispatch replay incomplete: %d summaries, %d cases" % (len(summ), total))
    ck.count(sum(s["executions"] for s in summ))
    ck.traces += total
    ck.extra["via_update"] = sum(s["via_update"] for s in summ)
    ck.exhaustive = True
    # non-trivial: pending & enabled-in-IE nonzero: 32*32 pairs minus those with IF&IE = 0 (3^5 = 243)
    ck.nontrivial_count = (1024 - 243) * 9 * 15 * 4
    first = vlib.read_ndjson(files[3])[200:202]
    for c in first:
        ck.sample(c)
    for m in recs:
        if m.get("kind") == "mismatch":
            ck.mismatch({"kind": "dispatch", "path": m["path"], "fields": m["fields"], "case": m["case"],
                         "obs": m["obs"], "obs_cyc": m["obs_cyc"], "obs_wr": m["obs_wr"]},
                        "dispatch-%s-%s-sp%d" % (m["path"], "-".join(m["fields"]), m["case"]["pre"]["sp"]))
    # "... and charges five machine cycles": in both builds the five cycles must reach the next step's account (in the jit
    # build the handler that follows is translated code entered with those cycles pending); interrupt-heavy programs,
    # cycle accounting only (Trace_Clock without the device observers)
    import gbprog
    rng = random.Random(vlib.seed() + 7)
    scs = gbprog.c08_random(400 if ck.tier == "thorough" else 120, 20, rng)
    record_and_validate_machine(ck, scs, "c07acct", jit=False, shards=4, validate="Trace_Clock")
    record_and_validate_machine(ck, scs, "c07acctj", jit=True, shards=4, validate="Trace_Clock")


# ------------------------------------------------------------ machine traces
def record_and_validate_machine(ck, scenarios, tag, jit=False, shards=8, cold=False, validate=True):
    """Run scenarios on the real core (gbv machine), validate the traces against Machine.tla.
    Returns the list of trace files."""
    import gbprog
    from concurrent.futures import ThreadPoolExecutor
    shards = max(1, min(shards, len(scenarios)))
    exe = vlib.build_harness(jit)
    parts = [scenarios[i::shards] for i in range(shards)]
    files = []
    def rec(i):
        sp = os.path.join(rundir(), "%s_sc%d.ndjson" % (tag, i))
        tp = os.path.join(rundir(), "%s_tr%d.ndjson" % (tag, i))
        gbprog.write_scenarios(sp, parts[i])
        args = [exe, "machine", "--scenarios", sp, "--out", tp] + (["--cold-cache"] if cold else [])
        rc, o, e = vlib.sh(args, cwd=vlib.VERIF, env={"VERIF_SEED": vlib.seed()}, timeout=3600)
        if rc < 0:
            raise vlib.CodeCrash(args, rc, e)
        if rc != 0:
            raise ToolError("machine recorder failed (rc=%s): %s" % (rc, e[-1500:]))
        return tp
    with ThreadPoolExecutor(max_workers=shards) as ex:
        files = list(ex.map(rec, range(shards)))
    nsteps = 0
    for i, tp in enumerate(files):
        kept, pc, dropped = [], None, 0
        with open(tp) as f:
            for line in f:
                if '"ev":"step"' in line:
                    nsteps += 1
                    pc = json.loads(line)["o"]["pc"]
                elif '"ev":"init"' in line:
                    pc = json.loads(line)["cpu"]["pc"]
                elif '"ev":"crash"' in line:
                    # the worker that ran this scenario was killed (an abort inside a bus helper, a fault in translated code)
                    ck.mismatch({"kind": "crash", "tag": tag, "jit": jit, "record": json.loads(line), "trace": tp}, "crash-" + tag)
                elif '"ev":"panic"' in line:
                    # a guest that runs off into memory instructions cannot be fetched from (video / cartridge RAM, echo RAM,
                    # OAM, the I/O page, IE) stops the emulator by design (Machine.tla: ExecM is not ok there): the scenario
                    # ends at that point, in every build alike.  A panic anywhere else is the code's.
                    if pc is not None and not (pc < 0x8000 or 0xC000 <= pc < 0xE000 or 0xFF80 <= pc < 0xFFFF):
                        dropped += 1
                        continue
                    r = json.loads(line)
                    ck.mismatch({"kind": "panic", "tag": tag, "jit": jit, "record": r, "trace": tp}, "panic-" + tag)
                kept.append(line)
        if dropped:
            with open(tp, "w") as f:
                f.writelines(kept)
            ck.extra["scenarios_that_left_executable_memory"] = ck.extra.get("scenarios_that_left_executable_memory", 0) + dropped
    ck.count(nsteps)
    ck.nontrivial_count += nsteps
    if validate:
        validate_traces(ck, files, validate if isinstance(validate, str) else "Trace_Machine", tag, jit)
        ck.traces += len(scenarios)
    return files


def validate_traces(ck, files, module, tag, jit=False):
    xenv = {"PACE": "1"} if (module == "Trace_Clock" and ck.prop == "C09") else {}
    jobs = [dict(module=module, env=dict({"TRACE": tp}, **xenv), dfs=True, check=False, timeout=3000, xmx="3g", light=len(files) > 3) for tp in files]
    rs = vlib.tlc_parallel(jobs)
    allok = True
    for tp, r in zip(files, rs):
        ck.add_tlc(module, r, mc=True)
        if r.printed("TRACE_OK"):
            continue
        allok = False
        rej = r.printed("TRACE_REJECTED")
        if not rej:
            raise ToolError("%s gave no verdict on %s:\n%s" % (module, tp, "\n".join(r.text.splitlines()[-30:])))
        keep = os.path.join(vlib.REPLAY, ck.prop)
        os.makedirs(keep, exist_ok=True)
        import shutil
        kept = os.path.join(keep, os.path.basename(tp))
        shutil.copy(tp, kept)
        ck.mismatch({"kind": "trace-rejected", "validator": module, "tag": tag, "jit": jit, "line": rej[0][:3000], "trace": kept},
                    "trace-%s-%s" % (module, tag))
    return allok


# ------------------------------------------------------------------- C08
@prop("C08")
def c08(ck):
    import gbprog
    thorough = ck.tier == "thorough"
    rng = random.Random(vlib.seed())
    ck.rule = ("every instruction sequence of length <= L over {EI, DI, RETI, HALT, STOP, NOP, REQ, WIE} (L=4 quick, 5 thorough) "
               "materialised as a real program with handlers at the vectors, plus random longer sequences, stepped with "
               "Core::update() in the build without jit; every step validated against Machine.tla (StepInstr / HaltTick) with "
               "the step-level C08 clauses evaluated; each emulator step is a case")
    mc = tlc("MC_IntState", cfg="MC_IntState_deep" if thorough else "MC_IntState", workers=8, coverage=True, timeout=3000)
    ck.add_tlc("MC_IntState", mc)
    ck.require_coverage(mc, ["Instr", "Tick"])
    mm = tlc("MC_Machine", cfg="MC_Machine_deep" if thorough else "MC_Machine", workers=6, timeout=3000)
    ck.add_tlc("MC_Machine", mm)       # SampledLaw / HaltLaw / StackLaw on the whole machine with asynchronous joypad input
    scs = gbprog.c08_all(5 if thorough else 4, rng) + gbprog.c08_random(6000 if thorough else 400, 24, rng)
    ck.extra["sequences"] = len(scs)
    ck.sample({k: scs[777][k] for k in ("id", "rom", "cpu", "ime", "init_writes", "steps")})
    files = record_and_validate_machine(ck, scs, "c08", jit=False, shards=12)
    ck.sample({"trace_excerpt": head_lines(files[0], 4)[1:]})


# ------------------------------------------------------------------- C09
@prop("C09")
def c09(ck):
    import gbprog
    thorough = ck.tier == "thorough"
    rng = random.Random(vlib.seed() + 9)
    ck.rule = ("machine traces recorded instruction-stepped (build without jit), block-stepped (run_code_block, build without "
               "jit) and in the jit build, over interrupt/halt-heavy programs and structured programs; the time projection of "
               "every step (CPU-reported cycles, clocks delivered to timer/LCD/DMA, pending dispatch cycles) validated against "
               "Clock.tla by Trace_Clock, including run_frame calls and the progress of an OAM DMA in flight (the step's time "
               "reaches the DMA engine too; blocks of 100-700 machine cycles, whose reported cycles are plain sums); each step is a case")
    mc = tlc("MC_Clock", workers=6, coverage=True, timeout=1800)
    ck.add_tlc("MC_Clock", mc)
    ck.require_coverage(mc, ["Step", "Halted"])
    # the whole machine against a button-pressing environment: time conservation as a system-level invariant
    mm = tlc("MC_Machine", cfg="MC_Machine_deep" if thorough else "MC_Machine", workers=6, timeout=3000)
    ck.add_tlc("MC_Machine", mm)
    n = 4000 if thorough else 500
    scs = gbprog.c08_all(3, rng) + gbprog.c08_random(n, 30, rng) + gbprog.structured_programs(n // 4, rng)
    for i, s in enumerate(scs):
        s["frames"] = 2 if i % 4 == 0 else 0
    ck.extra["programs"] = len(scs)
    for tag, jit, mode in [("instr", False, "update"), ("block", False, "block"), ("jit", True, "update")]:
        ss = [dict(s, mode=mode) for s in scs]
        files = record_and_validate_machine(ck, ss, "c09" + tag, jit=jit, shards=8, validate="Trace_Clock")
        if tag == "instr":
            ck.sample({"trace_excerpt": head_lines(files[0], 5)[1:]})
    # dispatches whose own pushes cancel them (stack pointer on IE / IF) still charge their five cycles: the pending
    # cycles after a dispatch are part of the logged projection that Trace_Machine compares with Machine.tla
    # stepping to the next frame terminates whatever the guest wrote to LCDC
    fr = gbprog.lcd_off_frame_programs()
    record_and_validate_machine(ck, fr, "c09lcdoff", jit=False, shards=2, validate="Trace_Clock")
    record_and_validate_machine(ck, fr, "c09lcdoffj", jit=True, shards=2, validate="Trace_Clock")
    # a block of several hundred machine cycles while an OAM DMA is in flight: its time reaches the DMA engine too
    lb = gbprog.dma_long_block_programs() + gbprog.dma_machine_programs(rng)
    want = {s["id"]: s["expect_cpu"] for s in lb if "expect_cpu" in s}
    for tag, jit in (("c09dmalong", False), ("c09dmalongj", True)):
        files = record_and_validate_machine(ck, lb, tag, jit=jit, shards=2, validate="Trace_Clock")
        # "the machine cycles the CPU consumed" of these blocks are plain sums (NOPs): what the CPU reports must be them
        for tp in files:
            cur, k = None, 0
            for line in open(tp):
                r = json.loads(line)
                if r["ev"] == "init":
                    cur, k = r["id"], 0
                elif r["ev"] == "step":
                    if cur in want and k < len(want[cur]) and r["cpu"] != want[cur][k]:
                        ck.mismatch({"kind": "block-cycles", "scenario": cur, "step": k, "jit": jit, "reported": r["cpu"], "consumed": want[cur][k]},
                                    "block-cycles-%s" % ("jit" if jit else "interp"))
                    k += 1
    cancel = gbprog.dispatch_cancel_programs(rng)
    record_and_validate_machine(ck, cancel, "c09cancel", jit=False, shards=4)
    record_and_validate_machine(ck, [dict(s, mode="block") for s in cancel], "c09cancelj", jit=True, shards=4)


# ------------------------------------------------------------------- C12
@prop("C12")
def c12(ck):
    thorough = ck.tier == "thorough"
    ck.rule = ("controller transition relation exported by TLC (Gen_Cart): complete register space of MBC1 (32x4x2) and MBC3 "
               "(128x4) x 4 register windows x 256 written values on 2 MiB/32 KiB cartridges, a register lattice on every "
               "ROM/RAM size and type incl. ROM-only; replayed on bank-tagged images observing the bytes at 0x0000/0x3FFE, "
               "0x4000/0x7FFE and 0xA000/0xBFFF and, by instruction fetch, the operand of LD BC,nn on the last byte of the fixed bank; "
               "plus random write/read histories on the cartridge's side of the bus validated against Machine.tla, and bank "
               "histories compared between the two builds; "
               "a transition is non-trivial when the write changes the visible ROM or RAM bank")
    mc = tlc("MC_Cart", cfg="MC_Cart_deep" if thorough else "MC_Cart", workers=10, coverage=True, timeout=3000)
    ck.add_tlc("MC_Cart", mc)
    ck.require_coverage(mc, ["Write"])
    files = gen_sharded(ck, "Gen_Cart", "cart", 16)
    nontriv = 0
    ncases = 0
    for f in files:
        with open(f) as fh:
            for line in fh:
                r = json.loads(line)
                ncases += 1
                nontriv += sum(1 for e in r["exp"] if e[0] != r["pre_rb"] or e[1] != r["pre_mb"])
                if ncases == 7:
                    ck.sample({k: (v if k != "exp" else v[:6] + ["..."]) for k, v in r.items()})
    recs = replay_files("mbc", files)
    summ = [r for r in recs if r.get("kind") == "summary"]
    for m in recs:
        if m.get("kind") in ("mismatch", "crash"):
            kind = "mbc1" if m["t"] in (1, 2, 3) else ("mbc3" if m["t"] in (17, 18, 19) else "rom")
            ck.mismatch(dict(m, controller=kind), "%s-%s-mode%s" % (m["kind"], kind, m["pre"]["mode"]))
    truncated = any(s.get("truncated") for s in summ)
    if not truncated and (len(summ) != len(files) or sum(s["cases"] for s in summ) != ncases or ncases != 48432):
        raise ToolError("controller replay incomplete")
    ck.count(sum(s["transitions"] for s in summ))
    ck.traces += sum(s["transitions"] for s in summ)
    ck.nontrivial_count += nontriv
    ck.exhaustive = not truncated
    # impl -> spec: random histories over all controller types
    n = 200000 if thorough else 20000
    tr = os.path.join(rundir(), "bustr.ndjson")
    vlib.gbv(["bus-trace", "--events", n, "--out", tr, "--no-ticks", "--no-joypad", "--cart-only"])       # the cartridge's side of the bus only
    ck.count(n)
    for pth in (split_trace_init(tr, 50000) if thorough else [tr]):
        trace_validate(ck, "Trace_Machine", pth, n, "bus-history")
    # the translator fetches instructions too: 2- and 3-byte instructions straddling the end of bank 0 with banks 1..3
    # mapped must take their operand bytes from the mapped bank, as the interpreter's fetch and a data read do
    import gbprog
    fs = gbprog.straddle_programs(rom_only=True)
    fi = record_and_validate_machine(ck, fs, "c10fetchi", jit=False, shards=4, validate=False)
    fj = record_and_validate_machine(ck, fs, "c10fetchj", jit=True, shards=4, validate=False)
    compare_traces(ck, fj, fi, "fetch-straddle", "jit", "interp")
    ck.traces += 2 * len(fs)
    # ... and the bank the recompiler executes from is the bank the controller selects: every history of length 3 over
    # "select bank 1 / 2 / 3" and "call the block at 0x4000 / 0x4010 / in the fixed bank" (the selecting store and the
    # call that follows share a block), both builds compared
    import itertools
    hs = [gbprog.cache_history_scenario(6300000 + n, list(seq), (0x11, 2, 0)) for n, seq in enumerate(itertools.product(range(6), repeat=3))]
    hi = record_and_validate_machine(ck, hs, "c12histi", jit=False, shards=4, validate=False)
    hj = record_and_validate_machine(ck, hs, "c12histj", jit=True, shards=4, validate=False)
    compare_traces(ck, hj, hi, "bank-histories", "jit", "interp")
    ck.traces += 2 * len(hs)


def split_trace_init(path, maxlines):
    parts, cur, n, idx = [], None, 0, 0
    with open(path) as f:
        for line in f:
            if cur is None or (n >= maxlines and '"ev":"init"' in line):
                if cur:
                    cur.close()
                idx += 1
                pn = "%s.part%d" % (path, idx)
                parts.append(pn)
                cur = open(pn, "w")
                n = 0
            cur.write(line)
            n += 1
    if cur:
        cur.close()
    return parts


# ------------------------------------------------------------------- C11
@prop("C11")
def c11(ck):
    thorough = ck.tier == "thorough"
    ck.rule = ("every (type, ROM-size code, RAM-size code) a loadable file can declare (7 x 12 x 6), loaded through "
               "Core::from_rom_file in an isolated worker (overflow checks on), x controller-register lattice (12 x 6 x 2 "
               "values in the three registers) x addresses (region boundaries; all 65536 in the thorough tier) x "
               "{read, write, word read, word write}; plus timer / LCD / DMA / joypad register histories at every device phase and "
               "bus histories with device time, for completion only; the observation is completion; a configuration is a case")
    thm = tlc("Thm_Bus", timeout=1800)
    ck.add_tlc("Thm_Bus", thm, mc=False)
    mc = tlc("MC_Cart", cfg="MC_Cart_deep" if thorough else "MC_Cart", workers=10, coverage=True, timeout=3000)
    ck.add_tlc("MC_Cart", mc)           # invariant InBounds: every index inside the cartridge
    d = os.path.join(rundir(), "crashdir")
    os.makedirs(d, exist_ok=True)
    recs = gbv(["bus-crash", "--dir", d] + (["--all-addresses"] if thorough else []), timeout=7200)
    summ = [r for r in recs if r.get("kind") == "summary"]
    if not summ or summ[0]["configs"] != 504:
        raise ToolError("crash sweep incomplete")
    done = [r for r in recs if r.get("kind") == "config"]
    if not done:
        done = [{"accesses": 0}]
    ck.count(sum(r["accesses"] for r in done))
    ck.nontrivial_count += len(done)
    ck.traces += len(done)
    ck.exhaustive = True
    ck.sample(done[100] if len(done) > 100 else {"configs": len(done)})
    for r in recs:
        if r.get("kind") == "crash":
            ck.mismatch(dict(r, ram_bytes_class=("none" if r["mc"] in (0,) else "some")), "crash-t%d-rc%d-mc%d" % (r["t"], r["rc"], r["mc"]))
    # guest-controlled values reach the devices as well (timer, LCD, DMA and joypad registers at every device phase):
    # the device recorders of C13/C14/C16/C17 and bus histories with device time, run here for completion only
    # (what they record is validated under those properties; a panic or an abort while recording is C11's)
    import subprocess
    exe = vlib.build_harness()
    nev = 200000 if thorough else 20000
    for args in (["timer-trace", "--mode", "sweep", "--events", nev], ["timer-trace", "--mode", "random", "--events", nev],
                 ["lcd-trace", "--mode", "random", "--events", nev], ["dma-trace", "--events", nev // 10], ["joypad-trace", "--events", nev],
                 ["bus-trace", "--events", nev, "--out", os.path.join(rundir(), "c11_bustr.ndjson")]):
        p = subprocess.run([exe] + [str(a) for a in args], stdout=subprocess.DEVNULL, stderr=subprocess.PIPE, cwd=vlib.VERIF, timeout=3600,
                           env=dict(os.environ, VERIF_SEED=str(vlib.seed() + 11)))
        ck.count(nev)
        if p.returncode != 0:
            ck.mismatch({"kind": "device-history-did-not-complete", "cmd": ["gbv"] + [str(a) for a in args], "rc": p.returncode,
                         "stderr": p.stderr.decode(errors="replace")[-600:]}, "device-%s" % args[0])
    # word accesses and stack operations at the edges, executed as instructions (both engines share the helpers)
    import gbprog
    rng = random.Random(vlib.seed() + 11)
    # (and interrupt dispatches with the stack pointer on 0 / 1 / 2 and on IF / IE: the two pushes wrap like any other)
    scs = gbprog.edge_access_programs(rng) + gbprog.serial_flood_programs() + gbprog.dispatch_cancel_programs(rng)
    record_and_validate_machine(ck, scs, "c11edge", jit=False, shards=4, validate=False)     # completion is the observation
    record_and_validate_machine(ck, [dict(x, mode="block") for x in scs], "c11edgej", jit=True, shards=4, validate=False)


# ------------------------------------------------------------------- C10
@prop("C10")
def c10(ck):
    thorough = ck.tier == "thorough"
    ck.rule = ("cell map computed from Machine.tla's MRead/MWrite by TLC (Gen_Bus) drives a sweep: every non-device address as "
               "write target x probes (the cell, +-1,2,0x7f,0x80,0x100,0x1000,0x2000,0x4000,0x8000, region boundaries, 64 random; "
               "all 65536 in the thorough tier) + fetch view; random bus histories over every implemented I/O register, "
               "controller registers, device time and joypad input validated against Machine.tla; the translator's fetch compared "
               "with the interpreter's on instructions straddling the end of bank 0 with banks 1..3 mapped; a probe is a case")
    thm = tlc("Thm_Bus", timeout=1800)
    ck.add_tlc("Thm_Bus", thm, mc=False)
    mp = os.path.join(rundir(), "busmap.json")
    g = tlc("Gen_Bus", env={"OUT": mp})
    ck.add_tlc("Gen_Bus", g, mc=False)
    recs = gbv(["bus-sweep", "--map", mp] + (["--all-probes"] if thorough else ["--passes", "2"]), timeout=7200)
    summ = [r for r in recs if r.get("kind") == "summary"]
    if not summ:
        raise ToolError("sweep did not finish")
    ck.count(summ[0]["probes"])
    ck.nontrivial_count += summ[0]["targets"]
    ck.traces += summ[0]["targets"]
    ck.extra["probes"] = summ[0]["probes"]
    for m in recs:
        if m.get("kind") == "mismatch":
            ck.mismatch(m, "sweep-%s-%s" % (m["tclass"], m["pclass"]))
    n = 400000 if thorough else 40000
    tr = os.path.join(rundir(), "bustr.ndjson")
    # no device time: decoding and read-back only.  (Controller registers are written too: which bank the regions 0x4000-0x7FFF
    # and 0xA000-0xBFFF show is part of what an address decodes to, so a controller defect is C10's as well as C12's.)
    vlib.gbv(["bus-trace", "--events", n, "--out", tr, "--no-ticks", "--no-joypad"])
    ck.count(n)
    ck.sample({"history_excerpt": head_lines(tr, 6)[1:]})
    for pth in (split_trace_init(tr, 50000) if thorough else [tr]):
        trace_validate(ck, "Trace_Machine", pth, n, "bus-history")
    # registers that simply hold what was written read it back whatever device time passes in between: histories WITH device
    # time and joypad input, judged on those registers alone (Trace_RegEcho skips everything else)
    te = os.path.join(rundir(), "bustr_time.ndjson")
    vlib.gbv(["bus-trace", "--events", n, "--out", te])
    ck.count(n)
    for pth in (split_trace_init(te, 50000) if thorough else [te]):
        trace_validate(ck, "Trace_RegEcho", pth, n, "register-echo")
    # the translator fetches instructions too: 2- and 3-byte instructions straddling the end of bank 0 with banks 1..3
    # mapped must take their operand bytes from the mapped bank, as the interpreter's fetch and a data read do
    import gbprog
    fs = gbprog.straddle_programs(rom_only=True)
    fi = record_and_validate_machine(ck, fs, "c10fetchi", jit=False, shards=4, validate=False)
    fj = record_and_validate_machine(ck, fs, "c10fetchj", jit=True, shards=4, validate=False)
    compare_traces(ck, fj, fi, "fetch-straddle", "jit", "interp")
    ck.traces += 2 * len(fs)
    # ... and what the recompiler executes at an address is what is mapped there now: every history of length 3 over "select
    # bank 1 / 2 / 3" and "call the block at 0x4000 / 0x4010 / in the fixed bank", both builds compared
    import itertools
    hs = [gbprog.cache_history_scenario(6400000 + n, list(seq), (0x11, 2, 0)) for n, seq in enumerate(itertools.product(range(6), repeat=3))]
    hi = record_and_validate_machine(ck, hs, "c10histi", jit=False, shards=4, validate=False)
    hj = record_and_validate_machine(ck, hs, "c10histj", jit=True, shards=4, validate=False)
    compare_traces(ck, hj, hi, "bank-histories", "jit", "interp")
    ck.traces += 2 * len(hs)


# ------------------------------------------------- instruction-level family
CONTROL_OPS = ({0x10, 0x76, 0xF3, 0xFB, 0xC3, 0xE9, 0xCD, 0xC9, 0xD9, 0x18, 0x20, 0x28, 0x30, 0x38, 0xC0, 0xC8, 0xD0, 0xD8,
                0xC2, 0xCA, 0xD2, 0xDA, 0xC4, 0xCC, 0xD4, 0xDC, 0xC5, 0xD5, 0xE5, 0xF5, 0xC1, 0xD1, 0xE1}
               | {0xC7 + 8 * i for i in range(8)})


def owner_spec_interp(rec):
    """Which property a specification-vs-interpreter mismatch belongs to: control flow, length,
    timing and stack transfers are C06; data results and flags are C05."""
    fields = set(rec.get("fields", []))
    if rec.get("op") in CONTROL_OPS or fields <= {"pc", "sp", "cyc", "st", "panic"}:
        return "C06"
    return "C05"


def owner_pair(rec):
    return "C02" if set(rec.get("fields", [])) <= {"cyc"} else "C01"


def instr_cases(ck, family, flags, shards=16, extra=0):
    env = {"FAMILY": family, "FLAGS": flags, "EXTRA": extra}
    files = gen_sharded(ck, "Gen_Instr", "gi_" + family, shards, extra_env=env)
    return files


def run_instr_replay(ck, files, pair):
    recs = replay_files("instr", files, extra=([] if pair else ["--no-pair"]), par=16)
    summ = [r for r in recs if r.get("kind") == "summary"]
    if len(summ) != len(files):
        raise ToolError("instruction replay incomplete")
    return recs, sum(s["cases"] for s in summ), sum(s["pair_cases"] for s in summ)


def alu_sweep(ck, pair, deep):
    """Complete-table sweep; returns (records, evals, pair_evals)."""
    tp = os.path.join(rundir(), "alu.json")
    if not os.path.exists(tp):
        g = tlc("Gen_Alu", env={"OUT": tp}, timeout=900)
        ck.add_tlc("Gen_Alu", g, mc=False)
    from concurrent.futures import ThreadPoolExecutor
    n = 16
    def one(i):
        return gbv(["alu-sweep", "--tables", tp, "--shard", i, "--shards", n] + (["--pair"] if pair else []) + (["--deep"] if deep else []), timeout=7200)
    vlib.build_harness(False)
    with ThreadPoolExecutor(max_workers=n) as ex:
        outs = list(ex.map(one, range(n)))
    recs = [r for o in outs for r in o]
    summ = [r for r in recs if r.get("kind") == "summary"]
    if len(summ) != n:
        raise ToolError("ALU sweep incomplete")
    return recs, sum(s["evals"] for s in summ), sum(s["pair_evals"] for s in summ)


def thm_alu(ck):
    r = tlc("Thm_Alu", timeout=1800)
    ck.add_tlc("Thm_Alu", r, mc=False)


@prop("C05")
def c05(ck):
    thorough = ck.tier == "thorough"
    ck.rule = ("complete data-operation tables of SM83Alu.tla exported by TLC (Gen_Alu) swept through interpreter::run_next_op: "
               "all (A, operand, F) for every 8-bit binary form with register, (HL) and immediate operands, all (value, F) for "
               "unary/CB forms on every register and (HL), all 65536 values for INC/DEC rr, all 65536 x 256 for ADD SP,e and "
               "LD HL,SP+e, ADD HL,rr on all low-byte pairs x high-byte classes (all high bytes in the thorough tier), all "
               "65536 stack words for POP AF; untouched registers randomised and checked; plus TLC-generated boundary cases "
               "(Gen_Instr); every state is a distinct case")
    thm_alu(ck)
    mc = tlc("MC_Cpu", workers=8, coverage=True, timeout=1800)
    ck.add_tlc("MC_Cpu", mc)
    recs, evals, _ = alu_sweep(ck, pair=False, deep=thorough)
    ck.count(evals)
    ck.nontrivial_count += evals
    ck.traces += evals
    ck.exhaustive = True
    for m in recs:
        if m.get("kind") == "spec-interp":
            ck.mismatch(m, "alu-" + m["label"])
    files = instr_cases(ck, "lattice", 16 if thorough else 4, extra=2 if thorough else 0)
    recs, n, _ = run_instr_replay(ck, files, pair=False)
    ck.count(n)
    ck.sample(head_lines(files[0], 1)[0])
    for m in recs:
        if m.get("kind") == "spec-interp" and owner_spec_interp(m) == "C05":
            ck.mismatch(m, "case-op%02x-%s" % (m["op"], "-".join(m["fields"][:3])))
        if m.get("kind") == "crash" and m.get("op") not in CONTROL_OPS:
            ck.mismatch(m, "crash-op%02x" % m["op"])


@prop("C06")
def c06(ck):
    thorough = ck.tier == "thorough"
    ck.rule = ("decode table of SM83.tla for all 512 encodings exported by TLC (Gen_Decode): defined, length, machine cycles in "
               "all 16 flag states, block end - against decoder::decode over operand bytes, Op::is_block_end and what "
               "run_next_op does to ip/cycles; the eleven undefined opcodes must be refused by both engines; TLC-generated "
               "control-flow/stack cases over PC/SP boundary lattices and every JR displacement at both ends of the address "
               "space (Gen_Instr); each generated case is distinct")
    mc = tlc("MC_Cpu", workers=8, coverage=True, timeout=1800)
    ck.add_tlc("MC_Cpu", mc)
    tp = os.path.join(rundir(), "decode.json")
    g = tlc("Gen_Decode", env={"OUT": tp})
    ck.add_tlc("Gen_Decode", g, mc=False)
    recs = gbv(["decode", "--table", tp])
    summ = [r for r in recs if r.get("kind") == "summary"]
    if not summ or summ[0]["rows"] != 512:
        raise ToolError("decode replay incomplete")
    ck.count(summ[0]["checks"])
    ck.nontrivial_count += 512
    for m in recs:
        if m.get("kind") == "mismatch":
            ck.mismatch(m, "decode-op%02x-%s" % (m["op"], m["bad"][0]["what"]))
    total = 0
    for fam, flags in (("lattice", 16 if thorough else 4), ("jr", 4)):
        files = instr_cases(ck, fam, flags, extra=2 if (thorough and fam == "lattice") else 0)
        recs, n, _ = run_instr_replay(ck, files, pair=False)
        total += n
        if fam == "jr":
            ck.sample(head_lines(files[0], 1)[0])
        for m in recs:
            if m.get("kind") == "spec-interp" and owner_spec_interp(m) == "C06":
                ck.mismatch(m, "case-op%02x-%s" % (m["op"], "-".join(m["fields"][:3])))
            if m.get("kind") == "crash" and m.get("op") in CONTROL_OPS:
                ck.mismatch(m, "crash-op%02x" % m["op"])
    ck.count(total)
    ck.nontrivial_count += total
    ck.traces += total
    ck.exhaustive = True
    # instructions straddling the end of a fetch region
    import gbprog
    scs = gbprog.straddle_programs() + gbprog.jump_to_next_programs()
    files = record_and_validate_machine(ck, scs, "c06straddle", jit=False, shards=2)
    # the interpreter as a block stepper (cycles accumulate over a block): random blocks against Machine!StepBlock
    rb = gbprog.random_blocks(6000 if thorough else 600, random.Random(vlib.seed() + 6))
    record_and_validate_machine(ck, rb, "c06blocks", jit=False, shards=8)


def pair_traces(ck, scenarios, tag, mode, owner, shards=8, classes=("C01", "C02")):
    """Run the same scenarios in the build without jit and the jit build, compare the traces record
    by record (the property is the pair equality); every differing history is nominated, then both
    traces are validated against Machine.tla by TLC to say which engine left the specification."""
    ss = [dict(s, mode=mode) for s in scenarios]
    fi = record_and_validate_machine(ck, ss, tag + "_i", jit=False, shards=shards, validate=False)
    fj = record_and_validate_machine(ck, ss, tag + "_j", jit=True, shards=shards, validate=False)
    ndiff = 0
    CYCLE_KEYS = ("clk", "cpu")
    CYCLE_O = ("div", "tima", "q", "pend", "iflag", "dact", "doff", "dpage")
    for a, b in zip(fi, fj):
        with open(a) as fa, open(b) as fb:
            cur_id, done_ids = None, set()
            la, lb = fa.readlines(), fb.readlines()
            if len(la) != len(lb):
                ck_owner = "C01"
            for x, y in zip(la, lb):
                if '"ev":"init"' in x:
                    cur_id = json.loads(x)["id"]
                    continue
                if x == y or cur_id in done_ids:
                    continue
                rx, ry = json.loads(x), json.loads(y)
                # classify: only time-derived fields differ -> cycles (C02); anything else -> effect (C01)
                def strip(r):
                    r = dict(r)
                    for k in CYCLE_KEYS:
                        r.pop(k, None)
                    if "o" in r:
                        r["o"] = {k: v for k, v in r["o"].items() if k not in CYCLE_O}
                    return r
                cls = "C02" if (strip(rx) == strip(ry) or rx.get("cpu") != ry.get("cpu")) else "C01"
                done_ids.add(cur_id)
                if cls == owner:
                    ndiff += 1
                    ck.mismatch({"kind": "pair-trace", "class": cls, "scenario": cur_id, "interp": rx, "jit": ry,
                                 "traces": [a, b]}, "pair-%s-%s" % (tag, cls))
    ck.traces += len(scenarios)
    # diagnosis / binding to the specification
    ok_i = validate_traces(Diag(ck), fi, "Trace_Machine", tag + "_i", False)
    ok_j = validate_traces(Diag(ck), fj, "Trace_Machine", tag + "_j", True)
    ck.extra.setdefault("spec_conformance", {})[tag] = {"interp": ok_i, "jit": ok_j}
    return ndiff


class Diag:
    """A view of a Check that counts TLC work but turns rejections into notes instead of violations:
    used where the property's verdict is the pair equality and the specification is the diagnosis."""
    def __init__(self, ck):
        self.ck = ck
        self.prop = ck.prop
    def add_tlc(self, *a, **k):
        self.ck.add_tlc(*a, **k)
    def mismatch(self, rec, name=None):
        self.ck.extra.setdefault("diagnosis", []).append({"name": name, "line": rec.get("line", "")[:400]})
        print("NOTE %s: %s deviates from Machine.tla (diagnosis only): %s" % (self.ck.prop, name, rec.get("line", "")[:200]))
        return False


def c01_c02(ck, owner):
    import gbprog
    thorough = ck.tier == "thorough"
    rng = random.Random(vlib.seed() + 1)
    # (a) complete register-form tables through both engines
    recs, evals, pevals = alu_sweep(ck, pair=True, deep=thorough)
    ck.count(pevals)
    ck.nontrivial_count += pevals
    for m in recs:
        if m.get("kind") == "pair" and owner == "C01":
            ck.mismatch(m, "alu-" + m["label"])
        if m.get("kind") == "pair-cycles" and owner == "C02":
            ck.mismatch(m, "alu-cycles-" + m["label"])
    # (b) TLC-generated boundary cases, every opcode x flag states, both engines on the one-instruction block
    for fam, flags in (("lattice", 16), ("jr", 4)):
        files = instr_cases(ck, fam, flags, extra=2 if (thorough and fam == "lattice") else 0)
        recs, n, npair = run_instr_replay(ck, files, pair=True)
        ck.count(npair)
        ck.nontrivial_count += npair
        ck.traces += npair
        if fam == "lattice":
            ck.sample(head_lines(files[1], 1)[0])
        for m in recs:
            if m.get("kind") == "pair" and owner_pair(m) == owner:
                ck.mismatch(m, "case-op%02x-%s" % (m["op"], "-".join(m["fields"][:3])))
            if m.get("kind") == "crash" and owner == "C01":
                ck.mismatch(m, "crash-op%02x" % m["op"])
    # (c) random straight-line blocks with every terminator kind at boundary placements, at the engine level
    n = 200000 if thorough else 20000
    blocks = gbprog.random_blocks(n, rng)
    parts = [blocks[i::12] for i in range(12)]
    files = []
    for i, part in enumerate(parts):
        f = os.path.join(rundir(), "blocks_%d.ndjson" % i)
        gbprog.write_scenarios(f, part)
        files.append(f)
    from concurrent.futures import ThreadPoolExecutor
    with ThreadPoolExecutor(max_workers=12) as ex:
        outs = list(ex.map(lambda f: gbv(["blocks", "--scenarios", f]), files))
    recs = [r for o in outs for r in o]
    if len([r for r in recs if r.get("kind") == "summary"]) != 12:
        raise ToolError("block replay incomplete")
    ck.count(n)
    ck.nontrivial_count += n
    ck.traces += n
    for m in recs:
        if m.get("kind") == "pair-block" and ((m["class"] == "cycles") == (owner == "C02")):
            ck.mismatch(m, "block-%s-%s" % (m["class"], "-".join(m["fields"][:3])))
        if m.get("kind") == "crash" and owner == "C01":
            ck.mismatch(m, "block-crash")
    # the same blocks as whole emulator steps in both builds (device catch-up and interrupt check included);
    # a difference in the cycles the CPU reports belongs to C02, any other first difference to C01;
    # plus blocks of several hundred instructions (more than 255 machine cycles in one block) and
    # instructions that straddle the end of ROM bank 0 with banks other than 1 mapped
    extra = gbprog.long_blocks(300 if thorough else 30, rng) + gbprog.straddle_programs(rom_only=True)
    # multi-block programs with interrupt dispatches between translated blocks (cycles pending across block entry)
    progs = [dict(x, mode="block") for x in gbprog.structured_programs(200 if thorough else 24, rng, start_id=2300000, steps=250)]
    pair_traces(ck, blocks[:(20000 if thorough else 2000)] + extra + progs, "blocks", "block", owner, shards=12)
    lb = os.path.join(rundir(), "longblocks.ndjson")
    gbprog.write_scenarios(lb, extra)
    for m in gbv(["blocks", "--scenarios", lb]):
        if m.get("kind") == "pair-block" and ((m["class"] == "cycles") == (owner == "C02")):
            ck.mismatch(m, "longblock-%s-%s" % (m["class"], "-".join(m["fields"][:3])))
        if m.get("kind") == "crash" and owner == "C01":
            ck.mismatch(m, "longblock-crash")


@prop("C01")
def c01(ck):
    ck.rule = ("pair equality interpreter = translated code: complete (A, operand, F) tables for every register/(HL)/immediate "
               "data opcode through both engines; TLC-generated boundary cases for all 500 opcodes x 16 flag states x pointer/"
               "SP/PC lattices and all JR displacements; random straight-line blocks of 1..32 instructions ending in every "
               "terminator kind at ROM placements incl. bank boundaries, compared on registers, status, ordered bus writes, "
               "memory and device state; both engines' block traces also validated against Machine.tla (diagnosis)")
    mc = tlc("MC_Cpu", workers=8, coverage=True, timeout=1800)
    ck.add_tlc("MC_Cpu", mc)
    c01_c02(ck, "C01")


@prop("C02")
def c02(ck):
    ck.rule = ("pair equality of machine cycles: every defined opcode x all 16 flag states (both outcomes of every conditional) "
               "as one-instruction blocks through both engines (TLC-generated cases), the complete operand tables, and sums "
               "over random multi-instruction blocks incl. the device clocks they deliver")
    mc = tlc("MC_Cpu", workers=8, coverage=True, timeout=1800)
    ck.add_tlc("MC_Cpu", mc)
    c01_c02(ck, "C02")


# ------------------------------------------------------------------- C03
def norm_trace_line(line):
    r = json.loads(line)
    for k in ("jit", "cold", "mode"):
        r.pop(k, None)
    return r


def compare_traces(ck, files_a, files_b, tag, name_a, name_b):
    """Record-by-record equality of two recordings of the same scenarios."""
    n = 0
    for a, b in zip(files_a, files_b):
        with open(a) as fa, open(b) as fb:
            cur = None
            done = set()
            for x, y in zip(fa, fb):
                if '"ev":"init"' in x:
                    cur = json.loads(x)["id"]
                    continue
                if cur in done:
                    continue
                rx, ry = norm_trace_line(x), norm_trace_line(y)
                if rx != ry:
                    done.add(cur)
                    n += 1
                    ck.mismatch({"kind": "modes-differ", "tag": tag, "scenario": cur, name_a: rx, name_b: ry, "traces": [a, b]},
                                "differ-%s-%s-%s" % (tag, name_a, name_b))
    return n


@prop("C03")
def c03(ck):
    import gbprog
    thorough = ck.tier == "thorough"
    ck.rule = ("every history of length <= L (4 quick, 6 thorough) of the CodeCache model over bank-register writes and block "
               "executions, generated by TLC and materialised on MBC1 and MBC3 ROMs whose banks hold different code at the "
               "same addresses; run with a warm cache, with the cache emptied before every block, and by the interpreter; "
               "every run validated against Machine.tla, the three compared record by record, and the cache-level events of "
               "the jit runs validated against CodeCache.tla (Transparent after every event); cartridges: MBC1/MBC3 with 8 banks, "
               "MBC3 with 64 and 72 banks, bank numbers that mirror bank 0 (4 of 4, 8 of 8), a fixed-bank block that reads the "
               "switchable bank as data, and register histories (low, upper, mode) on a 128-bank MBC1; a history is a case")
    mc = tlc("MC_CodeCache", workers=4, coverage=True, timeout=1800)
    ck.add_tlc("MC_CodeCache", mc)
    ck.require_coverage(mc, ["WriteBank", "RunWith"])
    # the model must still be able to tell the difference: with the tag never synchronised TLC has to find the stale hit
    bug = tlc("MC_CodeCache", cfg="MC_CodeCache_bug", workers=2, check=False, timeout=600)
    if "Invariant" not in bug.text or "is violated" not in bug.text:
        raise ToolError("vacuity: MC_CodeCache_bug produced no counterexample")
    ck.tlc_runs.append({"module": "MC_CodeCache_bug", "counterexample": True})
    files = gen_sharded(ck, "Gen_CacheHist", "cachehist", 4, extra_env={"MAXLEN": 6 if thorough else 4})
    hists = []
    for f in files:
        hists += vlib.read_ndjson(f)
    hists.sort(key=lambda h: h["id"])
    ck.sample(hists[700])
    # second alphabet: bank switches performed by a routine in work RAM (interpreted) that jumps straight into the bank
    files9 = gen_sharded(ck, "Gen_CacheHist", "cachehist9", 4, extra_env={"MAXLEN": 4 if thorough else 3, "NSYM": 9})
    hists9 = []
    for f in files9:
        hists9 += vlib.read_ndjson(f)
    hists9 = [h for h in hists9 if any(x >= 6 for x in h["steps"])]
    for h in hists9:
        h["id"] += 100000
    # three configurations: MBC1 and MBC3 with 8 banks, MBC3 with 64 banks and banks that differ by 32
    # ... and MBC3 with 72 banks (a size that is not a power of two) switching among banks 1, 9 and 2
    # ... and cartridges on which one of the three bank numbers is a multiple of the bank count (MBC3 with 4 banks: 4; MBC1
    # with 8 banks: 8), which maps the image's first 16 KiB -- different code again -- at 0x4000
    for cart, bankmap in (((1, 2, 0), (1, 2, 3)), ((0x11, 2, 0), (1, 2, 3)), ((0x11, 5, 0), (1, 33, 2)), ((0x11, 0x52, 0), (1, 9, 2)),
                          ((0x11, 1, 0), (1, 4, 2)), ((1, 2, 0), (1, 8, 2)),
                          # ... and two-bank images behind a controller: even bank numbers show the first 16 KiB, odd ones the second
                          ((1, 0, 0), (1, 2, 3)), ((0x11, 0, 0), (1, 2, 3))):
        tag = "mbc%d_%d_%d" % (1 if cart[0] == 1 else 3, cart[1], bankmap[1])
        sel = hists + hists9 if (cart, bankmap[1]) in (((1, 2, 0), 2), ((0x11, 5, 0), 33)) else [h for h in hists if h["id"] % 3 == 0] + hists9
        if cart[1] in (0, 1) or bankmap[1] == 8:
            sel = [h for h in hists if h["id"] % 6 == 0] + hists9[::2]       # the small cartridges: a thinner selection
        scs = [gbprog.cache_history_scenario(h["id"], h["steps"], cart, bankreg=0x2000 if h["id"] % 2 == 0 else 0x3FFF, bankmap=bankmap) for h in sel]
        warm = record_and_validate_machine(ck, scs, "c03w" + tag, jit=True, shards=8, validate=False)
        cold = record_and_validate_machine(ck, scs, "c03c" + tag, jit=True, shards=8, cold=True, validate=False)
        intp = record_and_validate_machine(ck, scs, "c03i" + tag, jit=False, shards=8, validate=False)
        # the property: warm cache = cache emptied before every block = interpreter
        compare_traces(ck, warm, cold, tag, "warm", "cold")
        compare_traces(ck, warm, intp, tag, "warm", "interp")
        ck.traces += 3 * len(scs)
        # binding to the whole-machine specification (diagnosis: a deviation common to all three modes is not C03's)
        validate_traces(Diag(ck), warm, "Trace_Machine", "c03w" + tag, True)
        for name, fl in (("warm", warm), ("cold", cold)):
            if cart[1] == 0:
                break         # (two banks: three bank numbers, two images -- the three-mode equality above is the verdict)
            evf = []
            for i, tp in enumerate(fl):
                ev = gbprog.cache_events(open(tp).read().splitlines())
                p = os.path.join(rundir(), "c03ev_%s_%s_%d.ndjson" % (tag, name, i))
                vlib.write_ndjson(p, ev)
                evf.append(p)
            validate_traces(ck, evf, "Trace_CodeCache", "cache-events-%s-%s" % (tag, name), True)
    # a 128-bank MBC1: the upper bank bits and the mode register take part (three-mode equality only)
    ms = gbprog.mbc1_mode_scenarios(random.Random(vlib.seed() + 3), 400 if thorough else 60)
    warm = record_and_validate_machine(ck, ms, "c03wmbc1m", jit=True, shards=8, validate=False)
    cold = record_and_validate_machine(ck, ms, "c03cmbc1m", jit=True, shards=8, cold=True, validate=False)
    intp = record_and_validate_machine(ck, ms, "c03imbc1m", jit=False, shards=8, validate=False)
    compare_traces(ck, warm, cold, "mbc1-mode", "warm", "cold")
    compare_traces(ck, warm, intp, "mbc1-mode", "warm", "interp")
    ck.traces += 3 * len(ms)
    validate_traces(Diag(ck), warm, "Trace_Machine", "c03wmbc1m", True)
    # block shapes the translator does not handle (model: WithStraddle / WithSelfSwitch): known findings
    shapes = tlc("MC_CodeCache", cfg="MC_CodeCache_shapes", workers=2, check=False, timeout=600)
    ck.tlc_runs.append({"module": "MC_CodeCache_shapes", "counterexample": "is violated" in shapes.text})
    for shape, sc in gbprog.cache_shape_scenarios():
        fj = record_and_validate_machine(ck, [sc], "c03shape", jit=True, shards=1, validate=False)
        fi = record_and_validate_machine(ck, [sc], "c03shapei", jit=False, shards=1, validate=False)
        la = [norm_trace_line(x) for x in open(fj[0])]
        lb = [norm_trace_line(x) for x in open(fi[0])]
        if la != lb:
            first = next((i for i, (x, y) in enumerate(zip(la, lb)) if x != y), min(len(la), len(lb)))
            ck.mismatch({"kind": "shape", "shape": shape, "cart": sc["cart"], "step": first,
                         "jit": la[first] if first < len(la) else None, "interp": lb[first] if first < len(lb) else None,
                         "scenario": sc}, "shape-" + shape)
    if thorough:
        # unbounded argument (optional, time-boxed, never the verdict): Apalache discharges the inductive invariant of
        # the typed restatement for any number of banks, and refutes it for the variant without tag synchronisation
        ap = {"base": vlib.apalache("ApaCodeCache.tla", ["--cinit=ConstInit", "--init=Init", "--inv=IndInv", "--length=0"]),
              "step": vlib.apalache("ApaCodeCache.tla", ["--cinit=ConstInit", "--init=IndInit", "--inv=IndInv", "--length=1"]),
              "step_without_sync": vlib.apalache("ApaCodeCache.tla", ["--cinit=ConstInitBug", "--init=IndInit", "--inv=IndInv", "--length=1"])}
        ck.extra["apalache_inductive_invariant"] = ap
        # tens of thousands of distinct blocks, each loading the number of the bank it was translated from, chained round
        # the banks again and again: after every step the code that ran must be that of the bank mapped there
        recs = gbv(["cache-pressure", "--banks", 60, "--steps", 420000, "--capture", os.path.join(rundir(), "cp.stdout")], jit=True, timeout=3600)
        for r in recs:
            if r.get("kind") == "crash":
                ck.mismatch(dict(r, family="cache-pressure"), "cache-pressure")
            if r.get("kind") == "wrong-bank-code":
                ck.mismatch(dict(r, family="cache-pressure-oracle"), "cache-pressure-wrong-bank")


# ------------------------------------------------------------------- C04
@prop("C04")
def c04(ck):
    import gbprog
    thorough = ck.tier == "thorough"
    rng = random.Random(vlib.seed() + 4)
    ck.rule = ("structured multi-block programs (counted loops, CALL/RET nests, interrupt handlers with EI/RETI, timer and LCD "
               "interrupt sources, HALT waits, OAM DMA through a high-RAM routine, code executed from work RAM, MBC1/MBC3 bank "
               "switches, serial output, device-register reads) run with Core::update() in the build without jit and in the "
               "jit build; the two recordings are compared record by record (registers, IME/run state, IF/IE, timer, LCD "
               "position, DMA, joypad, bus writes, serial bytes, hashes of all RAM and of the visible frame buffer) and each "
               "is validated against Machine.tla by TLC; cartridges incl. 64-, 72-bank MBC3 and 128-bank MBC1 with mode writes, "
               "blocks run repeatedly while their inputs change, straight-line code falling through 0x3FFF/0x4000; every emulator "
               "step of every program is a case")
    mc = tlc("MC_CodeCache", workers=4, coverage=True, timeout=1800)
    ck.add_tlc("MC_CodeCache", mc)
    n = 1500 if thorough else 60
    scs = gbprog.structured_programs(n, rng) + gbprog.structured_programs(n // 3, rng, start_id=2200000, mbc=0x33) \
        + gbprog.structured_programs(n // 3, rng, start_id=2250000, mbc=0x52) \
        + gbprog.structured_programs(n // 3, rng, start_id=2260000, mbc=0x106) \
        + gbprog.boundary_fallthrough_programs(rng, 200 if thorough else 24) \
        + gbprog.alu_table_programs(rng)
    # the interpreter build steps one instruction per update(), the jit build one block: compare like with like
    # by stepping both block by block (Core::run_code_block; a halted CPU ticks through update())
    for s in scs:
        s["mode"] = "block"
        s["hash"] = True
    fi = record_and_validate_machine(ck, scs, "c04i", jit=False, shards=12, validate=False)
    fj = record_and_validate_machine(ck, scs, "c04j", jit=True, shards=12, validate=False)
    compare_traces(ck, fj, fi, "programs", "jit", "interp")         # the property: the two builds agree after every step
    ck.traces += 2 * len(scs)
    # both recordings against Machine.tla (diagnosis: which build left the specification, if any)
    validate_traces(Diag(ck), fj, "Trace_Machine", "c04j", True)
    validate_traces(Diag(ck), fi, "Trace_Machine", "c04i", False)
    ck.extra["programs"] = len(scs)
    ck.sample({"program": {k: scs[0][k] for k in ("id", "cart", "cpu", "steps")}, "rom_chunks": len(scs[0]["rom"])})
    ck.sample({"trace_excerpt": head_lines(fj[0], 3)[1:]})
    # the same programs with interrupts arriving from the joypad as well
    ext = gbprog.structured_programs(n // 3, rng, start_id=2500000)
    for s in ext:
        s["mode"] = "block"; s["hash"] = True
        s["ext"] = [[rng.randrange(s["steps"]), rng.choice(["press", "release"]), rng.randrange(8)] for _ in range(6)]
        s["init_writes"] = [[0xFF00, rng.choice([0x00, 0x10, 0x20])]]
    fi = record_and_validate_machine(ck, ext, "c04xi", jit=False, shards=12, validate=False)
    fj = record_and_validate_machine(ck, ext, "c04xj", jit=True, shards=12, validate=False)
    compare_traces(ck, fj, fi, "programs-joypad", "jit", "interp")
    ck.traces += 2 * len(ext)
    validate_traces(Diag(ck), fj, "Trace_Machine", "c04xj", True)


# ------------------------------------------------------------------- C18
@prop("C18")
def c18(ck):
    import gbprog
    thorough = ck.tier == "thorough"
    rng = random.Random(vlib.seed() + 18)
    ck.rule = ("programs issuing arbitrary sequences of writes to SB/SC (all values, through LDH, LD (C),A, LD (HL),n, LD (a16),A, "
               "LD (HL+),A and PUSH landing on the registers) from ROM (translated in the jit build) and from work RAM "
               "(interpreted), stepped in both builds with stdout of the worker captured per step; TLC requires the captured "
               "bytes of every step to equal the specification's output of that step (Machine.tla / Serial.tla); the same ROMs "
               "run by the repository's own binary (both feature sets) must print exactly the validated stream after the "
               "loader's line; every emulator step is a case")
    mc = tlc("MC_Serial", workers=6, timeout=1800)
    ck.add_tlc("MC_Serial", mc)
    n = 600 if thorough else 45
    scs = gbprog.serial_programs(n, rng)
    fi = record_and_validate_machine(ck, scs, "c18i", jit=False, shards=12, validate="Trace_Serial")
    scj = [dict(s, steps=min(s["steps"], 80)) for s in scs]
    fj = record_and_validate_machine(ck, scj, "c18j", jit=True, shards=12, validate="Trace_Serial")
    # structured programs print too (serial snippet) and must print nothing else
    sp = gbprog.structured_programs(n // 3, rng, start_id=2700000, steps=300)
    fs = record_and_validate_machine(ck, sp, "c18sj", jit=True, shards=12, validate="Trace_Serial")
    # interrupt dispatches, cancelled ones included, print nothing
    cn = gbprog.dispatch_cancel_programs(rng)
    record_and_validate_machine(ck, cn, "c18cancel", jit=False, shards=4, validate="Trace_Serial")
    record_and_validate_machine(ck, [dict(x, mode="block") for x in cn], "c18cancelj", jit=True, shards=4, validate="Trace_Serial")
    # the same recordings against the whole machine (diagnosis only)
    validate_traces(Diag(ck), fj, "Trace_Machine", "c18j", True)
    nbytes = 0
    expected = {}
    for f in fi:
        cur = None
        with open(f) as fh:
            for line in fh:
                r = json.loads(line)
                if r["ev"] == "init":
                    cur = r["id"]; expected[cur] = []
                elif r["ev"] == "step":
                    expected[cur] += r["out"]; nbytes += len(r["out"])
    ck.extra["serial_bytes_validated"] = nbytes
    if nbytes < 20:
        raise ToolError("vacuity: serial programs produced almost no output")
    ck.sample({"program": scs[0]["id"], "stream": expected[scs[0]["id"]][:24]})
    # end to end: the repository's own binary on ROM files of the instruction-stepped scenarios that end in a tight loop
    import subprocess
    for jit in (False, True):
        exe = vlib.build_real_binary(jit)
        for s in scs[: (40 if thorough else 6)]:
            path = os.path.join(rundir(), "ser_%d.gb" % s["id"])
            open(path, "wb").write(gbprog.rom_file_bytes(s))
            want_len = len(b'Loading "VERIFTEST"\n') + len(expected[s["id"]])
            # until the whole validated stream has been printed, then a moment more to see that nothing else follows
            outb, rc, timed_out = vlib.run_until_patient([exe, path], lambda b: len(b) >= want_len, deadline=30.0, settle=0.3)
            head = b'Loading "VERIFTEST"\n'
            want = head + bytes(expected[s["id"]])
            ck.count(1)
            # the binary keeps running until the time-out kills it. Programs that end in a tight loop must have printed
            # exactly the validated stream; programs that start over (the work-RAM family) at least that stream first
            loops = ((s["id"] - 7000000) % 3 == 2)
            bad = rc is not None or outb[:len(want)] != want or (len(outb) != len(want) and not loops)
            if bad:
                ck.mismatch({"kind": "binary-stdout", "jit": jit, "scenario": s["id"], "rc": rc, "printed": list(outb[:200]),
                             "expected": list(want[:200])}, "binary-stdout-jit%d" % int(jit))
            os.remove(path)
    if thorough:
        recs = gbv(["cache-pressure", "--banks", 60, "--steps", 200000, "--capture", os.path.join(rundir(), "cp.stdout")], jit=True, timeout=3600)
        for r in recs:
            if r.get("stdout_bytes", 0) > 0:
                ck.mismatch(dict(r, family="cache-pressure-stdout"), "cache-pressure-stdout")


# ------------------------------------------------------------------- C19
@prop("C19")
def c19(ck):
    import gbprog, subprocess
    from concurrent.futures import ThreadPoolExecutor
    thorough = ck.tier == "thorough"
    ck.rule = ("ROM files generated from Cart!Load by TLC (Gen_Load): all 256 checksum bytes x 4 types, all 256 type bytes, "
               "15 ROM-size codes x 8 RAM-size codes x 3 types x 8 file lengths (0, 0xFF, 0x100, 0x14F, 0x150, declared-1, "
               "declared, declared+1), all 256 ROM/RAM-size codes for the decoded sizes; (a) through system::read_header, "
               "Header::valid_checksum, the size getters and create_cart_state in process, (b) through the repository's own "
               "binary on the file, which when it accepts runs a program that reads the last declared ROM byte and every RAM "
               "bank and then prints a marker; header bytes: every value filling 0x134-0x14C, single 0xFF/0x00/0x80 at each summed "
               "position; for accepted files the built memory (ROM and cartridge-RAM buffer sizes, RAM storage) against the tables; "
               "each file is a case")
    mc = tlc("MC_Cart", workers=10, coverage=True, timeout=3000)
    ck.add_tlc("MC_Cart", mc)
    out = os.path.join(rundir(), "load.ndjson")
    g = tlc("Gen_Load", env={"OUT": out}, timeout=900)
    ck.add_tlc("Gen_Load", g, mc=False)
    cases = vlib.read_ndjson(out)
    d = os.path.join(rundir(), "ld")
    os.makedirs(d, exist_ok=True)
    recs = gbv(["load", "--cases", out, "--dir", d])
    summ = [r for r in recs if r.get("kind") == "summary"]
    if not summ or summ[0]["cases"] != len(cases):
        raise ToolError("loader replay incomplete")
    ck.count(len(cases))
    ck.nontrivial_count += len(cases)
    ck.sample({k: cases[4100][k] for k in ("id", "fam", "fileLen", "exp", "romsize", "ramsize", "kind")})
    for m in recs:
        if m.get("kind") == "mismatch":
            ck.mismatch(m, "inprocess-%s-%s" % (m["fam"], "-".join(m["fields"])))
    # end to end
    exe = vlib.build_real_binary(False)
    sel = [c for c in cases if c["fam"] != "tables"]
    if not thorough:
        sel = [c for i, c in enumerate(sel) if c["fam"] == "sizes" and i % 3 == 0 or c["fam"] != "sizes" and i % 8 == 0]
    def run_one(c):
        path = os.path.join(d, "e2e_%d.gb" % c["id"])
        gbprog.write_load_case_file(path, c)
        # wait for the decisive output (probe marker after the loader's line, or the fallback banner), not for a clock
        def done(b):
            return (b.startswith(b'Loading "') and b'"\nK' in b) or b"No ROM, loading fallback" in b
        outb, rc, timed_out = vlib.run_until_patient([exe, path], done, deadline=30.0)
        os.remove(path)
        return c, outb, rc
    with ThreadPoolExecutor(max_workers=12) as ex:
        results = list(ex.map(run_one, sel))
    ck.count(len(results))
    ck.traces += len(results)
    naccept = 0
    for c, outb, rc in results:
        # a panic while the core is being built (exit status 101) is a controlled termination at load time
        accepted = outb.startswith(b'Loading "') and rc != 101
        exp_ok = c["exp"]["ok"]
        fault = rc is not None and rc < 0
        # the loader's line is  Loading "<title>"  and the title bytes are the file's (they may be line feeds or quotes):
        # what the program printed is whatever follows the LAST quote + line feed
        mline = re.match(rb'Loading "(.*)"\n(.*)$', outb, re.S)
        ran = mline is not None and mline.group(2).startswith(b"K")
        bad = None
        if fault:
            bad = "fault"
        elif accepted != exp_ok:
            bad = "decision"
        elif accepted and not ran:
            bad = "accepted-but-did-not-run"
        if accepted:
            naccept += 1
        if bad:
            ck.mismatch({"kind": "binary-load", "what": bad, "id": c["id"], "fam": c["fam"], "fileLen": c["fileLen"], "exp": c["exp"],
                         "rc": rc, "stdout": outb[:120].decode("latin1"), "type_rom_ram": [c["hdr"][71], c["hdr"][72], c["hdr"][73]]},
                        "binary-%s-%s" % (bad, c["fam"]))
    ck.extra["binary_runs"] = len(results)
    ck.extra["binary_accepted"] = naccept
    if naccept < 10:
        raise ToolError("vacuity: the binary accepted almost nothing")


# ------------------------------------------------------------------- C20
@prop("C20")
def c20(ck):
    thorough = ck.tier == "thorough"
    ck.rule = ("parse results recorded from parse_command / parse_address for: all 65536 addresses x 5 notations (decimal, 0x "
               "lower, 0x upper digits, 0x zero-padded, zero-padded decimal) as bare tokens and behind command words in random "
               "case and Unicode white space; a list of malformed / out-of-range / signed / non-ASCII numbers and command "
               "lines; random Unicode lines; and Display renderings of disassemble() on random streams of complete "
               "instructions at random start addresses incl. wrap-around; every record validated by TLC against "
               "Debugger.tla (Permits / Addresses / Tiles with SM83!ILen); a record is a case")
    nrand = 2000000 if thorough else 100000
    shards = 4
    files = []
    from concurrent.futures import ThreadPoolExecutor
    def rec(i):
        p = os.path.join(rundir(), "dbg_%d.ndjson" % i)
        gbv(["debug", "--out", p, "--random", nrand // shards, "--shard", i, "--shards", shards])
        return p
    with ThreadPoolExecutor(max_workers=shards) as ex:
        files = list(ex.map(rec, range(shards)))
    jobs = [dict(module="Val_Debugger", env={"TRACE": f}, check=False, timeout=3000, xmx="3g") for f in files]
    jobs.append(dict(module="MC_Debugger", cfg="MC_Debugger_deep" if thorough else "MC_Debugger", workers=6, coverage=True, timeout=3000))
    rs = vlib.tlc_parallel(jobs)
    ck.add_tlc("MC_Debugger", rs.pop())
    total = 0
    for f, r in zip(files, rs):
        ck.add_tlc("Val_Debugger", r, mc=False)
        n = sum(1 for _ in open(f))
        total += n
        if r.printed("BATCH_OK"):
            continue
        rej = r.printed("BATCH_REJECTED")
        if not rej:
            raise ToolError("Val_Debugger gave no verdict:\n" + "\n".join(r.text.splitlines()[-20:]))
        ck.mismatch({"kind": "batch-rejected", "line": rej[0][:2000], "file": f}, "parse-or-tiling")
    ck.count(total)
    ck.nontrivial_count += total
    ck.traces += total
    panics = 0
    for f in files[:1]:
        for line in open(f):
            if '"PANIC"' in line or '"res":-2' in line:
                panics += 1
    ck.sample(head_lines(files[0], 3))
    ck.sample([json.loads(l) for l in open(files[0]) if '"k":"dis"' in l][:1])


# ------------------------------------------------------------------- C15
@prop("C15")
def c15(ck):
    import gbprog
    thorough = ck.tier == "thorough"
    rng = random.Random(vlib.seed() + 15)
    ck.rule = ("scenes (VRAM, OAM, LCDC bits 1-6, SCX/SCY/WX/WY, palettes) held constant over a frame: uniformly random ones and "
               "directed families (window left of / inside / right of the screen, WY at 0/143/144, more than ten objects on a "
               "line with equal-X ties and X = 0 / >= 168, 8x16 objects with flips partly off-screen, BG-over-OBJ patterns, "
               "scroll wrap-around); rendered by the real PPU through run_clock_cycles in random batches, the frame presented "
               "at VBlank compared pixel by pixel by TLC with Ppu!Frame; a scene is a case (23040 pixels each)")
    n = 600 if thorough else 24
    scs = gbprog.scenes(n, rng)
    shards = 12 if thorough else 4
    parts = [scs[i::shards] for i in range(shards)]
    files = []
    for i, part in enumerate(parts):
        sp = os.path.join(rundir(), "scenes_%d.ndjson" % i)
        fp = os.path.join(rundir(), "frames_%d.ndjson" % i)
        vlib.write_ndjson(sp, part)
        recs = gbv(["ppu", "--scenes", sp, "--out", fp, "--group", 3])
        for r in recs:
            if r.get("kind") == "crash":
                ck.mismatch(r, "ppu-crash")
        files.append(fp)
    jobs = [dict(module="Val_Ppu", env={"TRACE": f}, check=False, timeout=3000, xmx="3g") for f in files]
    jobs.append(dict(module="MC_Ppu", cfg="MC_Ppu_deep" if thorough else "MC_Ppu", workers=4, timeout=3000))
    rs = vlib.tlc_parallel(jobs, maxpar=8)
    ck.add_tlc("MC_Ppu", rs.pop())
    for f, r in zip(files, rs):
        ck.add_tlc("Val_Ppu", r, mc=False)
        if r.printed("BATCH_OK"):
            continue
        rej = r.printed("BATCH_REJECTED")
        if not rej:
            raise ToolError("Val_Ppu gave no verdict:\n" + "\n".join(r.text.splitlines()[-20:]))
        import shutil
        keep = os.path.join(vlib.REPLAY, ck.prop); os.makedirs(keep, exist_ok=True)
        kept = os.path.join(keep, os.path.basename(f)); shutil.copy(f, kept)
        ck.mismatch({"kind": "frame-differs", "line": rej[0][:1500], "frames": kept}, "frame")
    ck.count(n)
    ck.nontrivial_count += n
    ck.traces += n
    ck.extra["pixels_compared"] = n * 23040
    s0 = scs[1]
    ck.sample({k: (s0[k] if k not in ("vram", "oam") else s0[k][:16] + ["..."]) for k in s0})
