//! C01, "control returns to the emulator with the host process intact": the entry trampoline of the code
//! cache is called with known values in every register the System V ABI says a callee preserves; which of
//! them (or the stack pointer, or the direction flag) came back changed is reported as a bit mask.
//! The wrapper saves and restores all of them itself, so a translation that breaks the convention is
//! reported deterministically instead of corrupting whatever the Rust caller kept in those registers.
use crate::cpu::Registers;

static mut SAVED_RSP: u64 = 0;

pub const NAMES: [&str; 8] = ["rbx", "rbp", "r12", "r13", "r14", "r15", "rsp", "df"];

pub fn describe(mask: u32) -> String {
  NAMES.iter().enumerate().filter(|(i, _)| mask & (1 << i) != 0).map(|(_, n)| *n).collect::<Vec<_>>().join("+")
}

/// (status returned by the block, mask of registers not preserved)
#[cfg(target_arch = "x86_64")]
pub unsafe fn canary_call(entry: usize, regs: *mut Registers, block: usize, epilogue: usize) -> (u8, u32) {
  let status: u64;
  let bad: u64;
  core::arch::asm!(
    "push rbx", "push rbp", "push r12", "push r13", "push r14", "push r15",
    "mov qword ptr [rip + {save}], rsp",
    "mov rbx, 0x1111111111111111",
    "mov rbp, 0x2222222222222222",
    "mov r12, 0x3333333333333333",
    "mov r13, 0x4444444444444444",
    "mov r14, 0x5555555555555555",
    "mov r15, 0x6666666666666666",
    "call rax",
    "xor r8d, r8d",
    "mov r9, 0x1111111111111111", "cmp rbx, r9", "setne r10b", "movzx r10, r10b", "or r8, r10",
    "mov r9, 0x2222222222222222", "cmp rbp, r9", "setne r10b", "movzx r10, r10b", "shl r10, 1", "or r8, r10",
    "mov r9, 0x3333333333333333", "cmp r12, r9", "setne r10b", "movzx r10, r10b", "shl r10, 2", "or r8, r10",
    "mov r9, 0x4444444444444444", "cmp r13, r9", "setne r10b", "movzx r10, r10b", "shl r10, 3", "or r8, r10",
    "mov r9, 0x5555555555555555", "cmp r14, r9", "setne r10b", "movzx r10, r10b", "shl r10, 4", "or r8, r10",
    "mov r9, 0x6666666666666666", "cmp r15, r9", "setne r10b", "movzx r10, r10b", "shl r10, 5", "or r8, r10",
    "cmp rsp, qword ptr [rip + {save}]", "setne r10b", "movzx r10, r10b", "shl r10, 6", "or r8, r10",
    "mov rsp, qword ptr [rip + {save}]",
    "pushfq", "pop r10", "shr r10, 10", "and r10, 1", "shl r10, 7", "or r8, r10",
    "cld",
    "pop r15", "pop r14", "pop r13", "pop r12", "pop rbp", "pop rbx",
    save = sym SAVED_RSP,
    inout("rax") entry as u64 => status,
    in("rdi") regs,
    in("rsi") block,
    in("rdx") epilogue,
    out("r8") bad,
    clobber_abi("sysv64"),
  );
  (status as u8, bad as u32)
}
