SPECIFICATION TraceSpec
POSTCONDITION TraceAccepted
CHECK_DEADLOCK FALSE
