#!/bin/sh
# Build the framework from files on disk only (offline).
set -e
cd "$(dirname "$0")"
export CARGO_NET_OFFLINE=true
(cd harness && cargo build --offline --target-dir target/nojit 2>&1 | tail -2)
(cd harness && cargo build --offline --features jit --target-dir target/jit 2>&1 | tail -2)
# parse every specification module
cd spec
for f in *.tla; do
  tla-sany "$f" > /tmp/sany.$$ 2>&1 || { cat /tmp/sany.$$; rm -f /tmp/sany.$$; echo "SANY failed on $f"; exit 1; }
done
rm -f /tmp/sany.$$
echo "setup ok"
