---------------------------- MODULE ApaCodeCache ----------------------------
(***************************************************************************)
(* Typed restatement of CodeCache.tla (clean configuration: tag            *)
(* synchronised before every lookup, no straddling / self-switching        *)
(* blocks, unbounded arena) for Apalache: the inductive invariant IndInv    *)
(* establishes Transparent for ANY number of banks and any addresses, not   *)
(* only the small constants TLC enumerates.                                *)
(*   apalache-mc check --init=Init    --inv=IndInv --length=0 ApaCodeCache.tla *)
(*   apalache-mc check --init=IndInit --inv=IndInv --length=1 ApaCodeCache.tla *)
(***************************************************************************)
EXTENDS Integers, Apalache

CONSTANTS
  \* @type: Int;
  NBanks,
  \* @type: Int;
  Split,         \* addresses below Split are in the fixed bank, the others in the switchable bank
  \* @type: Bool;
  NoSync         \* the code-shaped defect: the tag is never synchronised (must make the invariant fail)

VARIABLES
  \* @type: Int;
  bank,
  \* @type: Int;
  tag,
  \* @type: Set({tag: Int, addr: Int, src: Int});
  cache,
  \* @type: Int;
  ran,
  \* @type: Int;
  want

ConstInit == NBanks \in 2..512 /\ Split \in 1..32767 /\ NoSync = FALSE
ConstInitBug == NBanks \in 2..512 /\ Split \in 1..32767 /\ NoSync = TRUE

Addrs == 0..32767
IsLo(a) == a < Split
\* the bank whose code is visible at address a when bank b is mapped
SrcAt(b, a) == IF IsLo(a) THEN 0 ELSE b
KeyTag(a, t) == IF IsLo(a) THEN 0 ELSE t

Init == bank = 1 /\ tag = 1 /\ cache = {} /\ ran = 0 /\ want = 0

WriteBank == \E b \in 1..NBanks : bank' = b /\ UNCHANGED <<tag, cache, ran, want>>

Run == \E a \in Addrs :
  /\ tag' = (IF NoSync THEN tag ELSE bank)           \* SyncTag
  /\ want' = SrcAt(bank, a)
  /\ UNCHANGED bank
  /\ IF \E e \in cache : e.tag = KeyTag(a, tag') /\ e.addr = a
     THEN /\ \E e \in cache : e.tag = KeyTag(a, tag') /\ e.addr = a /\ ran' = e.src     \* hit
          /\ UNCHANGED cache
     ELSE /\ cache' = cache \union {[tag |-> KeyTag(a, tag'), addr |-> a, src |-> SrcAt(bank, a)]}   \* translate
          /\ ran' = SrcAt(bank, a)

Next == WriteBank \/ Run

\* every entry holds the code of the bank its tag names
EntriesTruthful == \A e \in cache : e.src = SrcAt(e.tag, e.addr) /\ e.tag = KeyTag(e.addr, e.tag)
TypeOK == bank \in 1..NBanks /\ tag \in 1..NBanks
          /\ \A e \in cache : e.addr \in Addrs /\ e.tag \in 0..NBanks /\ e.src \in 0..NBanks
Transparent == ran = want
IndInv == TypeOK /\ EntriesTruthful /\ Transparent

\* arbitrary state satisfying the invariant (for the inductive step)
\* (Apalache: Gen(n) is an arbitrary value of the variable's type with collections of at most n elements;
\* the invariant quantifies over single cache entries, so a handful of arbitrary entries is the general case)
IndInit ==
  /\ bank = Gen(1) /\ tag = Gen(1) /\ ran = Gen(1) /\ want = Gen(1)
  /\ cache = Gen(6)
  /\ IndInv
=============================================================================
