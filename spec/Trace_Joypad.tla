---------------------------- MODULE Trace_Joypad ----------------------------
(***************************************************************************)
(* impl -> spec: validates recorded joypad histories against Joypad.tla.   *)
(* Each record: {ev: "reset"|"press"|"release"|"select"|"collect", arg,    *)
(*               p1: value read at 0xFF00 & 0x3F afterwards, out: 0/1}     *)
(* A "reset" record starts a new history from power-on.                    *)
(***************************************************************************)
EXTENDS Joypad, TLC, IOUtils, Json, Sequences

Recs == ndJsonDeserialize(IOEnv.TRACE)

VARIABLES joy, l

Init == joy = PowerOn /\ l = 1

IsEvent(e) == l <= Len(Recs) /\ Recs[l].ev = e /\ l' = l + 1

Reset   == IsEvent("reset") /\ joy' = PowerOn /\ P1(joy') = Recs[l].p1
DoPress == IsEvent("press") /\ joy' = Press(joy, Recs[l].arg) /\ P1(joy') = Recs[l].p1
DoRelease == IsEvent("release") /\ joy' = Release(joy, Recs[l].arg) /\ P1(joy') = Recs[l].p1
DoSelect == IsEvent("select") /\ joy' = Select(joy, Recs[l].arg) /\ P1(joy') = Recs[l].p1
DoCollect == IsEvent("collect") /\ joy' = Collect(joy).js /\ B2N(Collect(joy).out) = Recs[l].out
             /\ P1(joy') = Recs[l].p1

Next == Reset \/ DoPress \/ DoRelease \/ DoSelect \/ DoCollect
TraceSpec == Init /\ [][Next]_<<joy, l>>

Matched == TLCGet("stats").diameter - 1
TraceAccepted ==
  IF Matched = Len(Recs) THEN PrintT(<<"TRACE_OK", Len(Recs)>>)
  ELSE /\ PrintT(<<"TRACE_REJECTED", Matched + 1, ToJson(Recs[Matched + 1])>>)
       /\ FALSE
=============================================================================
