------------------------------- MODULE Thm_Bus -------------------------------
(***************************************************************************)
(* Theorems about the memory map of Machine.tla (C10, C11), checked by TLC *)
(* over all 65536 addresses: the regions partition the address space, the  *)
(* storage key is injective, unmapped regions are constant, ROM is         *)
(* immutable through the bus, word accesses wrap, and every access of      *)
(* every cartridge configuration computes an in-bounds physical index.     *)
(***************************************************************************)
EXTENDS Machine, FiniteSets

Addr == 0..65535
M0(type, rc, mc) == PowerOnMachine(C!NewCart(type, rc, mc), ZeroCpu, << >>, 255)
Base == M0(1, 2, 3)

\* the cell a storage address denotes, as the read side sees it
Storage(a) == (a >= 32768 /\ a < 57344) \/ (a >= 65024 /\ a < 65184) \/ (a >= 65408)
KeyOf(m, a) == IF a >= 40960 /\ a < 49152 THEN XramKey(m.cart, a) ELSE a

\* a write to a storage address is returned by the next read of it ...
ASSUME ReadBack ==
  \A a \in {x \in Addr : Storage(x)} :
    LET v == IF a = 65535 THEN 21 ELSE 165 IN MRead(MWrite(Base, a, v).m, a) = v
\* ... and the storage key is injective: no two storage addresses share a cell
ASSUME Injective ==
  Cardinality({KeyOf(Base, a) : a \in {x \in Addr : Storage(x)}}) = Cardinality({x \in Addr : Storage(x)})
\* every write changes what is read at no other storage address (checked through the key: a write updates one key only)
ASSUME OneCell ==
  \A a \in {32768, 40959, 40960, 49151, 49152, 53247, 53248, 57343, 65024, 65183, 65408, 65534} :
    LET m1 == MWrite(Base, a, 90).m IN
    \A b \in {x \in Addr : Storage(x) /\ x # a /\ x # 65535} : MRead(m1, b) = MRead(Base, b)
\* unmapped regions read as a constant and ignore writes
ASSUME Unmapped ==
  \A a \in (57344..65023) \cup (65184..65279) :
    MRead(Base, a) = 0 /\ MWrite(Base, a, 77).m = Base /\ MWrite(Base, a, 77).out = << >>
ASSUME UnassignedIo ==
  \A r \in (0..127) \ ({0, 1, 2, 4, 5, 6, 7, 15, 64, 65, 66, 67, 68, 69, 70, 71, 72, 73, 74, 75}) :
    MRead(Base, 65280 + r) = 255 /\ MWrite(Base, 65280 + r, 77).m = Base
\* cartridge ROM contents never change through the bus (only the mapping registers do)
ASSUME RomImmutable ==
  \A a \in 0..32767 : LET w == MWrite(Base, a, 3).m IN w.rom = Base.rom /\ w.romfill = Base.romfill /\ w.mem = Base.mem
\* instruction fetch is a bus read in the executable regions (same operator)
ASSUME FetchRegions ==
  \A a \in Addr : Executable(a) <=> (a < 32768 \/ (a >= 49152 /\ a <= 57343) \/ (a >= 65408 /\ a <= 65534))
\* in-bounds physical indices for every configuration and register state (C11)
Types == {0, 1, 2, 3, 17, 18, 19}
RomCodes == {0, 1, 2, 3, 4, 5, 6, 7, 8, 82, 83, 84}
RamCodes == {0, 1, 2, 3, 4, 5}
ASSUME IndexBounds ==
  \A t \in Types, rc \in RomCodes, mc \in RamCodes :
    \A rom \in {0, 1, 31, 32, 127}, hi \in 0..3, mode \in 0..1 :
      LET c == [C!NewCart(t, rc, mc) EXCEPT !.rom = rom, !.hi = hi, !.mode = mode] IN
      /\ \A a \in {0, 16383, 16384, 32767} : C!RomIndex(c, a) < 16384 * c.romBanks
      /\ C!HasRam(c) => \A a \in {40960, 42000, 43008, 49151} : C!RamIndex(c, a) < c.ramBytes
=============================================================================
