----------------------------- MODULE Trace_Timer -----------------------------
(***************************************************************************)
(* impl -> spec: validates recorded timer histories against Timer.tla.     *)
(* Records: {ev, arg, div, tima, tma, tac, irq} with the register values   *)
(* observed after the event.  Events: reset, phase(d) (divider set through *)
(* the verification hook), wdiv, wtima(v), wtma(v), wtac(v), adv(n).       *)
(***************************************************************************)
EXTENDS Timer, TLC, IOUtils, Json, Sequences

Recs == ndJsonDeserialize(IOEnv.TRACE)
VARIABLES t, l

Init == t = PowerOn /\ l = 1
IsEvent(e) == l <= Len(Recs) /\ Recs[l].ev = e /\ l' = l + 1
Obs(r) == [div |-> r.div, tima |-> r.tima, tma |-> r.tma, tac |-> r.tac]
Matches(res) == t' = res.t /\ res.t = Obs(Recs[l]) /\ B2N(res.irq) = Recs[l].irq
NoIrq(x) == [t |-> x, irq |-> FALSE]

Reset  == IsEvent("reset") /\ Matches(NoIrq(PowerOn))
Phase  == IsEvent("phase") /\ Matches(NoIrq([t EXCEPT !.div = Recs[l].arg]))
WDiv   == IsEvent("wdiv")  /\ \E res \in WriteDIVResults(t) : Matches(res)
WTima  == IsEvent("wtima") /\ Matches(NoIrq(WriteTIMA(t, Recs[l].arg)))
WTma   == IsEvent("wtma")  /\ Matches(NoIrq(WriteTMA(t, Recs[l].arg)))
WTac   == IsEvent("wtac")  /\ Matches(WriteTAC(t, Recs[l].arg))
Adv    == IsEvent("adv")   /\ Matches(Run(t, Recs[l].arg))

Next == Reset \/ Phase \/ WDiv \/ WTima \/ WTma \/ WTac \/ Adv
TraceSpec == Init /\ [][Next]_<<t, l>>

Matched == TLCGet("stats").diameter - 1
TraceAccepted ==
  IF Matched = Len(Recs) THEN PrintT(<<"TRACE_OK", Len(Recs)>>)
  ELSE /\ PrintT(<<"TRACE_REJECTED", Matched + 1, ToJson(Recs[Matched + 1])>>)
       /\ FALSE
=============================================================================
