------------------------------- MODULE Gen_Alu -------------------------------
(***************************************************************************)
(* spec -> impl for C05 (and the register-form family of C01): the         *)
(* complete data-operation tables of SM83Alu exported as JSON.             *)
(* Every entry is r * 256 + f' (result and outgoing flag byte).            *)
(*   bin[fn][a][b][c]   ADD ADC SUB SBC AND XOR OR CP, carry-in c          *)
(*   inc[a][c] dec[a][c]            (C is preserved: c = incoming carry)   *)
(*   rot[k][a][c]       RLC RRC RL RR SLA SRA SWAP SRL (CB forms)          *)
(*   rota[k][a][c]      RLCA RRCA RLA RRA                                  *)
(*   bit[n][a][c]       BIT n (result unchanged), flags with carry c       *)
(*   res[n][a] set[n][a]                                                   *)
(*   daa[a][f/16] cpl[a][f/16] scf[a][f/16] ccf[a][f/16]                    *)
(*   add8[a][b][c]      r*4 + 2*H + C  of the byte adder: ADD HL,rr and    *)
(*                      ADD SP,e / LD HL,SP+e are compositions of it       *)
(*                      (theorems AddHLBytewise, AddSPLowByte of Thm_Alu)  *)
(* All indices are 1-based in the JSON arrays.                             *)
(***************************************************************************)
EXTENDS SM83Alu, TLC, IOUtils, Json

OutFile == IF "OUT" \in DOMAIN IOEnv THEN IOEnv.OUT ELSE "/tmp/gen_alu.json"
P(x) == x.r * 256 + x.f
Fc(c) == 16 * c

Tables ==
  [bin  |-> [fn \in 1..8 |-> [a \in 1..256 |-> [b \in 1..256 |-> [c \in 1..2 |-> P(AluBin(fn - 1, a - 1, b - 1, Fc(c - 1)))]]]],
   inc  |-> [a \in 1..256 |-> [c \in 1..2 |-> P(Inc8(a - 1, Fc(c - 1)))]],
   dec  |-> [a \in 1..256 |-> [c \in 1..2 |-> P(Dec8(a - 1, Fc(c - 1)))]],
   rot  |-> [k \in 1..8 |-> [a \in 1..256 |-> [c \in 1..2 |-> P(RotCB(k - 1, a - 1, Fc(c - 1)))]]],
   rota |-> [k \in 1..4 |-> [a \in 1..256 |-> [c \in 1..2 |-> P(RotA(k - 1, a - 1, Fc(c - 1)))]]],
   bit  |-> [n \in 1..8 |-> [a \in 1..256 |-> [c \in 1..2 |-> P(BitTest(n - 1, a - 1, Fc(c - 1)))]]],
   res  |-> [n \in 1..8 |-> [a \in 1..256 |-> BitRes(n - 1, a - 1, 0).r]],
   set  |-> [n \in 1..8 |-> [a \in 1..256 |-> BitSet(n - 1, a - 1, 0).r]],
   daa  |-> [a \in 1..256 |-> [f \in 1..16 |-> P(Daa(a - 1, 16 * (f - 1)))]],
   cpl  |-> [a \in 1..256 |-> [f \in 1..16 |-> P(Cpl(a - 1, 16 * (f - 1)))]],
   scf  |-> [a \in 1..256 |-> [f \in 1..16 |-> P(Scf(a - 1, 16 * (f - 1)))]],
   ccf  |-> [a \in 1..256 |-> [f \in 1..16 |-> P(Ccf(a - 1, 16 * (f - 1)))]],
   add8 |-> [a \in 1..256 |-> [b \in 1..256 |-> [c \in 1..2 |->
               LET x == Add8(a - 1, b - 1, c - 1) IN x.r * 4 + 2 * Hf(x.f) + Cf(x.f)]]],
   maskf |-> [b \in 1..256 |-> MaskF(b - 1)]]

ASSUME JsonSerialize(OutFile, Tables)
ASSUME PrintT(<<"GEN_ALU", 8 * 256 * 256 * 2 + 256 * 256 * 2>>)
=============================================================================
