----------------------------- MODULE Val_Debugger -----------------------------
(***************************************************************************)
(* impl -> spec batch validation for C20: every recorded parse result must *)
(* be permitted by Debugger!Permits, every recorded disassembly must tile  *)
(* its bytes with the lengths of SM83!ILen.  Records:                      *)
(*   {k: "parse", cp: code points, res: <<kind>> or <<kind, addr>>}        *)
(*   {k: "addr",  cp: code points of one token, res: -1 or the value}      *)
(*   {k: "dis",   addr, bytes, ins: <<<<address, length>>...>>}            *)
(***************************************************************************)
EXTENDS Debugger, TLC, IOUtils, Json
S == INSTANCE SM83

Recs == ndJsonDeserialize(IOEnv.TRACE)
Res(r) == IF Len(r) = 1 THEN <<r[1]>> ELSE <<r[1], r[2]>>
Explains(rec) ==
  CASE rec.k = "parse" -> Permits(rec.cp, rec.res)
    [] rec.k = "addr" -> (LET a == Addresses(rec.cp) IN IF rec.res = -1 THEN a.must = {} ELSE rec.res \in a.may)
    [] rec.k = "dis" -> Tiles(rec.addr, rec.bytes, rec.ins, S!ILen)
Bad == {i \in 1..Len(Recs) : ~Explains(Recs[i])}
ASSUME IF Bad = {} THEN PrintT(<<"BATCH_OK", Len(Recs)>>)
       ELSE PrintT(<<"BATCH_REJECTED", Cardinality(Bad), ToJson(Recs[CHOOSE i \in Bad : \A j \in Bad : i <= j])>>)
=============================================================================
