//! C16: records OAM DMA histories (start, time batches, source edits, restarts)
//! from the real MemoryAreas for Trace_Dma.tla.
use crate::emulator::Core;
use crate::mem::{memory_read_byte, memory_write_byte};
use crate::timing::ClockCycles;
use crate::util::*;
use crate::world::*;
use serde_json::json;
use std::io::Write;

fn other_hash(core: &Core) -> String {
  let m = &core.memory;
  let mut h: u64 = 0xcbf29ce484222325;
  let mut feed = |b: &[u8]| { for x in b { h = (h ^ (*x as u64)).wrapping_mul(0x100000001b3); } };
  feed(&m.video_ram); feed(&m.cart_ram); feed(&m.work_ram); feed(&m.high_ram); feed(&m.rom);
  feed(&[m.io.interrupt_mask]);
  format!("{:016x}", h)
}

fn emit(out: &mut Vec<u8>, core: &mut Core, ev: &str, arg: u64, val: u64, src: Option<Vec<u8>>) {
  let (act, page, off) = match core.memory.oam_dma { Some(d) => { let (s, o) = d.verif_progress(); (1, s >> 8, o as u64) }, None => (0, 0, 0) };
  let oam: Vec<u8> = core.memory.oam_ram.iter().cloned().collect();
  let mut rec = json!({"ev": ev, "arg": arg, "val": val, "act": act, "page": page, "off": off, "oam": oam, "oh": other_hash(core)});
  if let Some(s) = src { rec["src"] = json!(s); }
  writeln!(out, "{}", rec).unwrap();
}

fn snapshot(core: &mut Core, page: usize) -> Vec<u8> {
  let p = mem_ptr(core);
  (0..160).map(|i| memory_read_byte(p, (page * 256 + i) as u16)).collect()
}

fn fresh(rng: &mut Rng) -> Box<Core> {
  // MBC1 cartridge with 4 ROM banks and 32 KiB RAM so that every page has distinctive content
  let mut core = new_core(1, 4, 0x8000);
  for i in 0..core.memory.rom.len() { core.memory.rom[i] = rng.byte(); }
  for i in 0..core.memory.video_ram.len() { core.memory.video_ram[i] = rng.byte(); }
  for i in 0..core.memory.cart_ram.len() { core.memory.cart_ram[i] = rng.byte(); }
  for i in 0..core.memory.work_ram.len() { core.memory.work_ram[i] = rng.byte(); }
  for i in 0..core.memory.high_ram.len() { core.memory.high_ram[i] = rng.byte(); }
  core
}

pub fn trace(args: &[String]) {
  let n = arg_usize(args, "--events", 4000);
  let mut rng = Rng::new(seed_from_env() ^ 0x16);
  let mut out: Vec<u8> = Vec::new();
  let mut core = fresh(&mut rng);
  let mut count = 0usize;
  let mut left = 0usize;
  let mut next_page = 0usize;
  while count < n {
    if left == 0 {
      core = fresh(&mut rng);
      emit(&mut out, &mut core, "reset", 0, 0, None);
      left = 30 + rng.below(60) as usize; count += 1;
      // every page takes its turn as the first transfer of a history
      let page = next_page % 256; next_page += 1;
      let p = mem_ptr(&mut core);
      // display on or off, and a random position in the frame: the transfer does not depend on either
      memory_write_byte(p, 0xff40, *rng.pick(&[0x00u8, 0x91, 0x80, 0x11]));
      let skip = 4 * rng.below(17556) as usize;
      { let m = &mut core.memory; let _ = m.io.video.run_clock_cycles(ClockCycles(skip.max(4)), &m.video_ram, &m.oam_ram); }
      memory_write_byte(p, 0xff46, page as u8);
      emit(&mut out, &mut core, "start", page as u64, 0, None); count += 1;
      continue;
    }
    left -= 1; count += 1;
    let p = mem_ptr(&mut core);
    let cur_page = core.memory.oam_dma.map(|d| d.verif_progress().0 >> 8).unwrap_or(0xc0);
    match rng.below(12) {
      0 => { let page = if rng.chance(1, 2) { rng.byte() } else { *rng.pick(&[0x00u8, 0x3f, 0x40, 0x7f, 0x80, 0xa0, 0xc0, 0xd0, 0xdf, 0xe0, 0xfd, 0xfe, 0xff]) };
             memory_write_byte(p, 0xff46, page); emit(&mut out, &mut core, "start", page as u64, 0, None); },
      1 | 2 => { // edit the source region of the running transfer (or anywhere in RAM)
             let a = if rng.chance(2, 3) { (cur_page * 256 + rng.below(160) as usize) as u16 } else { 0x8000 + rng.below(0x6000) as u16 };
             let v = rng.byte();
             if (0xfe00..0xfea0).contains(&a) { memory_write_byte(p, a, v); emit(&mut out, &mut core, "oamw", (a - 0xfe00) as u64, v as u64, None); }
             else if a >= 0x8000 && a < 0xff00 || a >= 0xff80 { memory_write_byte(p, a, v); emit(&mut out, &mut core, "edit", a as u64, v as u64, None); }
             else { count -= 1; } },
      4 => { // switch the ROM bank: pages 0x40-0x7F now show other bytes ("through the normal memory map at the time")
             let v = rng.below(4) as u8; memory_write_byte(p, 0x2000, v); emit(&mut out, &mut core, "edit", 0x2000, v as u64, None); },
      3 => { let i = rng.below(160); let v = rng.byte(); memory_write_byte(p, 0xfe00 + i as u16, v);
             emit(&mut out, &mut core, "oamw", i, v as u64, None); },
      _ => { let b = 4 * match rng.below(6) { 0 => 1, 1 => 1 + rng.below(4) as usize, 2 => 1 + rng.below(40) as usize,
                                              3 => 159 + rng.below(3) as usize, 4 => 1 + rng.below(300) as usize, _ => 2 };
             let src = snapshot(&mut core, cur_page);
             core.memory.run_clock_cycles(ClockCycles(b));
             emit(&mut out, &mut core, "adv", b as u64, 0, Some(src)); },
    }
  }
  std::io::stdout().write_all(&out).unwrap();
}
