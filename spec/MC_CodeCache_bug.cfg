SPECIFICATION Spec
CONSTANTS
  Banks = {1, 2, 3}
  LoAddrs = {100}
  HiAddrs = {16384, 16400}
  Capacity = 9
  Bug_NoTagSync = TRUE
  WithStraddle = FALSE
  WithSelfSwitch = FALSE
INVARIANT TypeOK
INVARIANT Transparent
INVARIANT EntriesTruthful
INVARIANT ColdEquivalent
INVARIANT NeverExhausted
CHECK_DEADLOCK FALSE
