//! Replay of TLC-generated instruction cases (Gen_Instr.tla) through the real
//! interpreter and, for code in ROM, through both engines as one-instruction
//! blocks. Emits one JSON line per mismatch and a summary line.
use crate::cache::CodeCache;
use crate::emulator::Core;
use crate::interpreter;
use crate::util::*;
use crate::world::*;
use serde_json::{json, Value};
use std::panic::{catch_unwind, AssertUnwindSafe};

pub struct Obs {
  pub cpu: Cpu,
  pub st: i64,
  pub cyc: u32,
  pub wr: Vec<(u16, u8)>,
  pub rd: Vec<u16>,
  pub panic: bool,
  /// callee-saved host registers the translated code did not preserve (crate::abi), 0 for the interpreter
  pub abi: u32,
}

impl Obs {
  pub fn to_json(&self) -> Value {
    json!({"s": self.cpu.to_json(), "st": self.st, "cyc": self.cyc,
           "wr": self.wr.iter().map(|w| json!([w.0, w.1])).collect::<Vec<_>>(), "panic": self.panic,
           "abi": crate::abi::describe(self.abi)})
  }
}

fn setup(core: &mut Core, case: &Value, halt_after: bool) -> Cpu {
  let cpu = Cpu::from_json(&case["s"]);
  for m in case["mem"].as_array().unwrap() {
    poke(core, ju(&m[0]) as u16, ju(&m[1]) as u8);
  }
  if halt_after {
    let len = ju(&case["len"]) as u32;
    poke(core, (cpu.pc + len) as u16, 0x76);
  }
  cpu.load(&mut core.registers);
  cpu
}

pub fn step_interp(core: &mut Core) -> Obs {
  let p = mem_ptr(core);
  rec_start();
  let r = catch_unwind(AssertUnwindSafe(|| interpreter::run_next_op(&mut core.registers, p)));
  let log = rec_stop();
  let (st, panic) = match r { Ok(Some((st, _))) => (st as i64, false), Ok(None) => (-2, false), Err(_) => (-1, true) };
  let cyc = core.registers.cycles;
  Obs { cpu: Cpu::read(&core.registers), st, cyc, wr: writes_only(&log),
        rd: log.iter().filter(|e| !e.0).map(|e| e.1).collect(), panic, abi: 0 }
}

pub fn block_interp(core: &mut Core) -> Obs {
  let p = mem_ptr(core);
  rec_start();
  let r = catch_unwind(AssertUnwindSafe(|| interpreter::run_code_block(&mut core.registers, p)));
  let log = rec_stop();
  let (st, panic) = match r { Ok(st) => (st as i64, false), Err(_) => (-1, true) };
  let cyc = core.registers.cycles;
  Obs { cpu: Cpu::read(&core.registers), st, cyc, wr: writes_only(&log),
        rd: log.iter().filter(|e| !e.0).map(|e| e.1).collect(), panic, abi: 0 }
}

/// Translate the block at the current ip (always a fresh translation) and run it.
pub fn block_jit(core: &mut Core) -> Obs {
  let ip = core.registers.ip as usize;
  let (cursor, cap, _, _) = core.cache.verif_snapshot();
  if cap - cursor < 0x20000 {
    core.cache = CodeCache::new();
  }
  let memp = core.memory.as_ptr();
  rec_start();
  let r = catch_unwind(AssertUnwindSafe(|| {
    let off = core.cache.translate_code_block(&core.memory.rom, ip, memp);
    // the same call as CodeCache::call makes, with known values in the callee-saved host registers
    let (entry, exit) = core.cache.verif_entry_points();
    let block = core.cache.get_memory_start_address() + off;
    unsafe { crate::abi::canary_call(entry, &mut core.registers as *mut _, block, exit) }
  }));
  let log = rec_stop();
  let (st, panic, abi) = match r { Ok((st, abi)) => (st as i64, false, abi), Err(_) => (-1, true, 0) };
  let cyc = core.registers.cycles;
  Obs { cpu: Cpu::read(&core.registers), st, cyc, wr: writes_only(&log),
        rd: log.iter().filter(|e| !e.0).map(|e| e.1).collect(), panic, abi }
}

pub fn mem_hash(core: &Core) -> u64 {
  let m = &core.memory;
  let mut h: u64 = 0xcbf29ce484222325;
  let mut feed = |b: &[u8]| { for x in b { h = (h ^ (*x as u64)).wrapping_mul(0x100000001b3); } };
  feed(&m.video_ram); feed(&m.cart_ram); feed(&m.work_ram); feed(&m.oam_ram); feed(&m.high_ram);
  feed(&[m.io.interrupt_mask, m.io.interrupt_flag.as_u8()]);
  h
}

pub fn copy_mem(from: &Core, to: &mut Core) {
  to.memory.video_ram.copy_from_slice(&from.memory.video_ram);
  to.memory.cart_ram.copy_from_slice(&from.memory.cart_ram);
  to.memory.work_ram.copy_from_slice(&from.memory.work_ram);
  to.memory.oam_ram.copy_from_slice(&from.memory.oam_ram);
  to.memory.high_ram.copy_from_slice(&from.memory.high_ram);
  to.memory.io.interrupt_mask = from.memory.io.interrupt_mask;
  to.memory.io.interrupt_flag = crate::devices::interrupts::InterruptFlag::new(from.memory.io.interrupt_flag.as_u8());
}

/// status codes compared modulo Core::run_code_block's interpretation: 1 stop, 2 halt, 3 disable,
/// 4 and 5 both enable, every other value is "nothing to do"
fn status_class(a: i64) -> i64 { match a { 1 | 2 | 3 => a, 4 | 5 => 4, -1 | -2 => a, _ => 0 } }
fn status_eq(a: i64, b: i64) -> bool { status_class(a) == status_class(b) }

fn diff_fields(exp: &Value, obs: &Obs, core: &mut Core) -> Vec<String> {
  let mut d = Vec::new();
  if obs.panic { d.push("panic".to_string()); return d; }
  let e = Cpu::from_json(&exp["s"]);
  let o = obs.cpu;
  if e.af >> 8 != o.af >> 8 { d.push("a".into()); }
  if e.af & 0xff != o.af & 0xff { d.push("f".into()); }
  if e.bc != o.bc { d.push("bc".into()); }
  if e.de != o.de { d.push("de".into()); }
  if e.hl != o.hl { d.push("hl".into()); }
  if e.sp != o.sp { d.push("sp".into()); }
  if e.pc != o.pc { d.push("pc".into()); }
  if ji(&exp["st"]) != obs.st { d.push("st".into()); }
  if ju(&exp["cyc"]) as u32 != obs.cyc { d.push("cyc".into()); }
  let ewr: Vec<(u16, u8)> = exp["wr"].as_array().unwrap().iter().map(|w| (ju(&w[0]) as u16, ju(&w[1]) as u8)).collect();
  if ewr != obs.wr { d.push("wr".into()); }
  for r in exp["rb"].as_array().unwrap() {
    let a = ju(&r[0]) as u16;
    if peek(core, a) != ju(&r[1]) as u8 { d.push(format!("rb@{:#06x}", a)); }
  }
  d
}

pub fn run(args: &[String]) {
  let cases = read_ndjson(&arg_value(args, "--cases").expect("--cases"));
  let do_pair = !args.iter().any(|a| a == "--no-pair");
  silence_panics();
  let mut ci = plain_core();
  let mut cj = plain_core();
  let n = cases.len();
  let mut stats = [0u64; 4]; // interp cases, pair cases
  let res = run_isolated(n, |i, out| {
    let case = &cases[i];
    // (1) specification vs interpreter, one instruction
    setup(&mut ci, case, false);
    let obs = step_interp(&mut ci);
    let d = diff_fields(&case["exp"], &obs, &mut ci);
    if !d.is_empty() {
      let line = json!({"kind": "spec-interp", "id": case["id"], "op": case["op"], "cb": case["cb"],
                        "fields": d, "obs": obs.to_json()});
      out.extend_from_slice(line.to_string().as_bytes()); out.push(b'\n');
    }
    // (2) interpreter vs translated code on the one-instruction block (ROM only)
    let pc = ju(&case["s"]["pc"]);
    if do_pair && pc < 0x8000 {
      let be = case["be"].as_bool().unwrap();
      copy_mem(&ci, &mut cj);
      setup(&mut ci, case, !be);
      setup(&mut cj, case, !be);
      // rom pokes go to each core's own rom; keep them identical
      let oi = block_interp(&mut ci);
      let oj = block_jit(&mut cj);
      let mut d: Vec<String> = Vec::new();
      if oi.panic != oj.panic { d.push("panic".into()); }
      if !oi.panic && !oj.panic {
        if oi.cpu.af != oj.cpu.af { d.push("af".into()); }
        if oi.cpu.bc != oj.cpu.bc { d.push("bc".into()); }
        if oi.cpu.de != oj.cpu.de { d.push("de".into()); }
        if oi.cpu.hl != oj.cpu.hl { d.push("hl".into()); }
        if oi.cpu.sp != oj.cpu.sp { d.push("sp".into()); }
        if oi.cpu.pc != oj.cpu.pc { d.push("pc".into()); }
        if !status_eq(oi.st, oj.st) { d.push("st".into()); }
        if oi.cyc != oj.cyc { d.push("cyc".into()); }
        if oi.wr != oj.wr { d.push("wr".into()); }
        if mem_hash(&ci) != mem_hash(&cj) { d.push("mem".into()); }
        if oj.abi != 0 { d.push(format!("host:{}", crate::abi::describe(oj.abi))); }
      }
      if !d.is_empty() {
        let line = json!({"kind": "pair", "id": case["id"], "op": case["op"], "cb": case["cb"],
                          "fields": d, "interp": oi.to_json(), "jit": oj.to_json()});
        out.extend_from_slice(line.to_string().as_bytes()); out.push(b'\n');
      }
      out.extend_from_slice(b"{\"kind\":\"count-pair\"}\n");
    }
  });
  let mut pair_n = 0u64;
  for l in &res.lines {
    if l.contains("\"count-pair\"") { pair_n += 1; } else { println!("{}", l); }
  }
  for (i, st) in &res.crashes {
    println!("{}", json!({"kind": "crash", "id": cases[*i]["id"], "op": cases[*i]["op"], "cb": cases[*i]["cb"],
                          "status": describe_status(*st)}));
  }
  println!("{}", json!({"kind": "summary", "cases": n, "pair_cases": pair_n, "crashes": res.crashes.len(), "truncated": res.truncated}));
}

/// C01(c)/C02: whole blocks at the engine level. Each scenario's block is run by
/// interpreter::run_code_block on one core and translated + called on another (no device
/// catch-up, no interrupt check); registers, status, ordered bus writes, memory and device
/// registers must agree (class "effect"), and so must the cycles charged (class "cycles").
pub fn blocks(args: &[String]) {
  let scen = read_ndjson(&arg_value(args, "--scenarios").expect("--scenarios"));
  silence_panics();
  let capfile = format!("{}.stdout", arg_value(args, "--scenarios").unwrap());
  let mut captured = false;
  let res = run_isolated(scen.len(), |i, out| {
    // (in the worker) what the blocks print through the serial port must not mix with the report
    if !captured { let _ = crate::cmd_machine::Capture::start(&capfile); captured = true; }
    let sc = &scen[i];
    let mut ci = crate::cmd_machine::build_core(sc);
    let mut cj = crate::cmd_machine::build_core(sc);
    for c in [&mut ci, &mut cj].iter_mut() {
      let p = mem_ptr(c);
      if let Some(ws) = sc["init_writes"].as_array() { for w in ws { crate::mem::memory_write_byte(p, ju(&w[0]) as u16, ju(&w[1]) as u8); } }
    }
    let oi = block_interp(&mut ci);
    let oj = block_jit(&mut cj);
    let mut d: Vec<String> = Vec::new();
    if oi.panic != oj.panic { d.push("panic".into()); }
    if !oi.panic && !oj.panic {
      if oi.cpu.af != oj.cpu.af { d.push("af".into()); }
      if oi.cpu.bc != oj.cpu.bc { d.push("bc".into()); }
      if oi.cpu.de != oj.cpu.de { d.push("de".into()); }
      if oi.cpu.hl != oj.cpu.hl { d.push("hl".into()); }
      if oi.cpu.sp != oj.cpu.sp { d.push("sp".into()); }
      if oi.cpu.pc != oj.cpu.pc { d.push("pc".into()); }
      if !status_eq(oi.st, oj.st) { d.push("st".into()); }
      if oi.wr != oj.wr { d.push("wr".into()); }
      if mem_hash(&ci) != mem_hash(&cj) { d.push("mem".into()); }
      if oj.abi != 0 { d.push(format!("host:{}", crate::abi::describe(oj.abi))); }
      let (pi, pj) = (crate::cmd_machine::project(&mut ci), crate::cmd_machine::project(&mut cj));
      for k in ["iflag", "ie", "div", "tima", "tma", "tac", "lyc", "en", "dact", "dpage", "p1", "jpend"].iter() { if pi[*k] != pj[*k] { d.push(format!("io.{}", k)); } }
      if oi.cyc != oj.cyc { d.push("cyc".into()); }
    }
    if !d.is_empty() {
      let class = if d == vec!["cyc".to_string()] { "cycles" } else { "effect" };
      let line = json!({"kind": "pair-block", "class": class, "id": sc["id"], "fields": d, "interp": oi.to_json(), "jit": oj.to_json(),
                        "scenario": {"rom": sc["rom"], "cpu": sc["cpu"], "init_writes": sc["init_writes"]}});
      out.extend_from_slice(line.to_string().as_bytes()); out.push(b'\n');
    }
  });
  for l in &res.lines { println!("{}", l); }
  for (i, st) in &res.crashes { println!("{}", json!({"kind": "crash", "id": scen[*i]["id"], "status": describe_status(*st), "scenario": {"rom": scen[*i]["rom"], "cpu": scen[*i]["cpu"]}})); }
  println!("{}", json!({"kind": "summary", "blocks": scen.len(), "crashes": res.crashes.len(), "truncated": res.truncated}));
}
