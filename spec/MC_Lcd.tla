------------------------------- MODULE MC_Lcd -------------------------------
(***************************************************************************)
(* Behaviour specification of the LCD schedule for model checking (C14):   *)
(* interleavings of elapsed-time batches and STAT/LYC writes; the batched  *)
(* machine runs in lock-step with the 4-clock machine (`fine').            *)
(***************************************************************************)
EXTENDS Lcd, TLC

CONSTANTS Batches, StatVals, LycVals, StartQ, MaxSteps
VARIABLES p, fine, req, fineReq, steps
vars == <<p, fine, req, fineReq, steps>>

Init == /\ \E q \in StartQ : p = [PowerOn EXCEPT !.q = q]
        /\ fine = p /\ req = {} /\ fineReq = {} /\ steps = 0
Bound == steps < MaxSteps /\ steps' = steps + 1
DoAdvance == Bound /\ \E n \in Batches :
               LET r == Run(p, n)  f == Iter(fine, n) IN
               p' = r.p /\ fine' = f.p /\ req' = r.req /\ fineReq' = f.req
DoWriteSTAT == Bound /\ \E v \in StatVals : p' = WriteSTAT(p, v) /\ fine' = WriteSTAT(fine, v) /\ req' = {} /\ fineReq' = {}
DoWriteLYC  == Bound /\ \E v \in LycVals : p' = WriteLYC(p, v) /\ fine' = WriteLYC(fine, v) /\ req' = {} /\ fineReq' = {}
Next == DoAdvance \/ DoWriteSTAT \/ DoWriteLYC
Spec == Init /\ [][Next]_vars

TypeOK == p.q \in 0..(Frame - 1) /\ p.q % 4 = 0 /\ ReadLY(p) \in 0..153 /\ ReadSTAT(p) \in 0..127
BatchingIndependent == p = fine /\ req = fineReq
\* STAT bits 0-2 reflect the schedule
StatReflects == /\ ReadSTAT(p) % 4 = Mode(p.q)
                /\ Bit(ReadSTAT(p), 2) = B2N(ReadLY(p) = p.lyc)
                /\ (ReadLY(p) >= 144 <=> Mode(p.q) = 1)
\* VBlank is requested by a step exactly when the step passes the start of line 144
VBlankLaw == [][DoAdvance => (("vblank" \in req') <=> (\E n \in Batches : p'.q = (p.q + n) % Frame /\ Passed(p.q, n, 144 * 456)))]_vars
=============================================================================
