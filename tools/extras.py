"""./check extra [--tier quick|thorough] — conformance of behaviour the specification covers beyond the twenty
listed properties.

Nothing here decides a listed property, so nothing here ever prints a VIOLATION line: a mismatch is reported as
"EXTRA-MISMATCH <name> <replay file>" and the command exits 3 (0 when everything conformed, 2 on tool errors).
Results are written to /verif/evidence-extra/<name>.json.

  coherence  Thm_Machine.tla: Machine.tla's interrupt check is Irq!Dispatch on its projection, catch-up is additive at
           machine level (timer, LCD, DMA, joypad latch, IF and the DMA's bus writes together), a halted CPU that nothing
           wakes just lets time pass, a block step is its instruction steps; MC_MachineMixed.tla: every system-level law of
           MC_Machine still holds when each step may be an instruction step or a block step (a partly compiled program).
           (Specification only: no code involved.)
  raster   Val_PpuRaster.tla: LCD registers, video RAM and OAM rewritten during horizontal / vertical blanking
           take effect from the next line on (split screens, per-line scroll, sprite multiplexing); line y of the
           presented frame is line y of Ppu.tla's composition of the state in force when line y began.
  raster-machine  the same law end to end: guest programs whose HBlank (STAT mode 0) handler rewrites scroll / palette /
           window registers per line and whose VBlank handler moves an object and rewrites a map entry, run on the
           whole machine in both builds; the register / VRAM / OAM timeline is reconstructed from the recorded bus
           writes and LCD positions, and every frame the PPU presented is validated by Val_PpuRaster.
"""
import json, os, random, shutil, sys, time
import vlib
from vlib import rundir, gbv, ToolError


def raster(tier):
    import raster as rastergen
    thorough = tier == "thorough"
    rng = random.Random(vlib.seed() + 150)
    n = 240 if thorough else 16
    scs = rastergen.raster_scenes(n, rng)
    shards = 12 if thorough else 4
    files = []
    crashes = []
    for i in range(shards):
        sp = os.path.join(rundir(), "rscenes_%d.ndjson" % i)
        fp = os.path.join(rundir(), "rframes_%d.ndjson" % i)
        vlib.write_ndjson(sp, scs[i::shards])
        for r in gbv(["ppu-raster", "--scenes", sp, "--out", fp]):
            if r.get("kind") == "crash":
                crashes.append(r)
        files.append(fp)
    rs = vlib.tlc_parallel([dict(module="Val_PpuRaster", env={"TRACE": f}, check=False, timeout=3000, xmx="3g") for f in files], maxpar=12)
    bad = []
    applied = 0
    for f, r in zip(files, rs):
        for l in open(f):
            rec = json.loads(l)
            applied += rec["applied"]
            if rec["skipped"]:
                raise ToolError("the raster driver missed a blanking interval (scene %s)" % rec["id"])
        if r.printed("BATCH_OK"):
            continue
        rej = r.printed("BATCH_REJECTED")
        if not rej:
            raise ToolError("Val_PpuRaster gave no verdict:\n" + "\n".join(r.text.splitlines()[-20:]))
        keep = os.path.join(vlib.REPLAY, "extra-raster"); os.makedirs(keep, exist_ok=True)
        kept = os.path.join(keep, os.path.basename(f)); shutil.copy(f, kept)
        bad.append({"verdict": rej[0][:1500], "frames": kept})
    for c in crashes:
        bad.append({"verdict": "crash", "record": c})
    return {"name": "raster", "module": "Val_PpuRaster", "scenes": n, "patches_applied": applied, "pixels_compared": n * 23040,
            "mismatches": bad}


def raster_machine(tier):
    """Guest programs with HBlank / VBlank handlers on the whole machine, both builds; frames validated by Val_PpuRaster."""
    import raster as rastergen, gbprog
    thorough = tier == "thorough"
    rng = random.Random(vlib.seed() + 151)
    scs = rastergen.raster_machine_programs(24 if thorough else 4, rng)
    bad, nframes, npatches = [], 0, 0
    files = []
    for jit in (False, True):
        tag = "jit" if jit else "interp"
        sp = os.path.join(rundir(), "rm_%s.ndjson" % tag)
        tp = os.path.join(rundir(), "rm_%s_trace.ndjson" % tag)
        gbprog.write_scenarios(sp, scs)
        gbv(["machine", "--scenarios", sp, "--out", tp], jit=jit)
        per, cur = {}, None
        for l in open(tp):
            r = json.loads(l)
            if r["ev"] == "init":
                cur = r["id"]; per[cur] = []
            if r["ev"] in ("panic", "crash"):
                bad.append({"verdict": "the run did not complete (%s build)" % tag, "record": r})
                continue
            per[cur].append(r)
        recs = []
        for sc in scs:
            try:
                recs += rastergen.machine_timeline(sc, per.get(sc["id"], []))
            except ValueError as e:
                raise ToolError("raster program %s wrote outside blanking: %s" % (sc["id"], e))
        if len(recs) < len(scs):
            raise ToolError("vacuity: fewer frames than programs")
        nframes += len(recs); npatches += sum(len(r["patches"]) for r in recs)
        shards = 8 if thorough else 4
        for i in range(shards):
            fp = os.path.join(rundir(), "rm_%s_frames_%d.ndjson" % (tag, i))
            vlib.write_ndjson(fp, recs[i::shards])
            files.append(fp)
    rs = vlib.tlc_parallel([dict(module="Val_PpuRaster", env={"TRACE": f}, check=False, timeout=5400, xmx="3g") for f in files], maxpar=8)
    for f, r in zip(files, rs):
        if r.printed("BATCH_OK"):
            continue
        rej = r.printed("BATCH_REJECTED")
        if not rej:
            raise ToolError("Val_PpuRaster gave no verdict:\n" + "\n".join(r.text.splitlines()[-20:]))
        keep = os.path.join(vlib.REPLAY, "extra-raster"); os.makedirs(keep, exist_ok=True)
        kept = os.path.join(keep, os.path.basename(f)); shutil.copy(f, kept)
        bad.append({"verdict": rej[0][:1500], "frames": kept})
    return {"name": "raster-machine", "module": "Val_PpuRaster", "programs": len(scs), "builds": 2, "frames": nframes, "patches": npatches,
            "pixels_compared": nframes * 23040, "mismatches": bad}


def coherence(tier):
    """Thm_Machine.tla: the whole-machine specification agrees with the device modules it instantiates."""
    r, mx = vlib.tlc_parallel([dict(module="Thm_Machine", env={"DEEP": "1"} if tier == "thorough" else {}, check=False, timeout=5400, xmx="8g"),
                               dict(module="MC_MachineMixed", workers=4, check=False, timeout=5400)])
    bad = []
    for name, x in (("Thm_Machine", r), ("MC_MachineMixed", mx)):
        if "No error has been found" not in x.text:
            bad.append({"verdict": name + ": " + "\n".join(l for l in x.text.splitlines() if "ssumption" in l or "Error" in l or "violated" in l)[:1500]})
    return {"name": "coherence", "modules": ["Thm_Machine", "MC_MachineMixed"],
            "theorems": ["DispatchRefinesIrq", "CatchUpAdditive", "HaltedTime", "BlockIsInstructions"],
            "mixed_stepping_states": mx.distinct, "wall_tlc_s": round(r.wall, 1), "mismatches": bad}


EXTRAS = {"raster": raster, "raster-machine": raster_machine, "coherence": coherence}


def main(argv):
    tier = "quick"
    names = []
    it = iter(argv)
    for a in it:
        if a == "--tier":
            tier = next(it)
        else:
            names.append(a)
    names = names or sorted(EXTRAS)
    outdir = os.path.join(vlib.VERIF, "evidence-extra")
    os.makedirs(outdir, exist_ok=True)
    rc = 0
    for nme in names:
        t0 = time.time()
        try:
            res = EXTRAS[nme](tier)
        except vlib.CodeCrash as e:
            res = {"name": nme, "mismatches": [{"verdict": "process-killed", "cmd": e.cmd, "rc": e.rc}]}
        res["tier"], res["wall_s"] = tier, round(time.time() - t0, 1)
        json.dump(res, open(os.path.join(outdir, nme + ".json"), "w"), indent=1)
        if res["mismatches"]:
            rc = 3
            for m in res["mismatches"]:
                print("EXTRA-MISMATCH %s %s" % (nme, m.get("frames") or json.dumps(m)[:300]))
        else:
            print("EXTRA-OK %s %s" % (nme, {k: v for k, v in res.items() if k not in ("mismatches", "name")}))
    return rc
