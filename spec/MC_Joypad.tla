----------------------------- MODULE MC_Joypad -----------------------------
(***************************************************************************)
(* Behaviour specification of the joypad for model checking (C17): every   *)
(* interleaving of presses, releases, selection writes and collections.    *)
(***************************************************************************)
EXTENDS Joypad

(* ------------------------------------------------------------------ *)
(* Behaviour specification                                             *)
(* ------------------------------------------------------------------ *)
VARIABLES joy, reported    \* reported: result of the last Collect (observation only)

Init == joy = PowerOn /\ reported = FALSE
DoPress   == \E b \in Buttons : joy' = Press(joy, b) /\ UNCHANGED reported
DoRelease == \E b \in Buttons : joy' = Release(joy, b) /\ UNCHANGED reported
DoSelect  == \E v \in {0, 16, 32, 48} : joy' = Select(joy, v) /\ UNCHANGED reported
DoCollect == joy' = Collect(joy).js /\ reported' = Collect(joy).out
Next == DoPress \/ DoRelease \/ DoSelect \/ DoCollect
Spec == Init /\ [][Next]_<<joy, reported>>

TypeOK == /\ joy.pressed \subseteq Buttons /\ joy.selDir \in BOOLEAN /\ joy.selAct \in BOOLEAN
          /\ joy.pending \in BOOLEAN /\ P1(joy) \in 0..63

\* the register law of the statement, expressed on the bits of the value read
RegisterLaw ==
  /\ \A k \in 0..3 : (Bit(P1(joy), k) = 0) <=> (\E b \in joy.pressed : Selected(joy, b) /\ LineOf(b) = k)
  /\ (Bit(P1(joy), 4) = 0) <=> joy.selDir
  /\ (Bit(P1(joy), 5) = 0) <=> joy.selAct

\* with nothing selected no line can be low, whatever is pressed
NothingSelected == (~joy.selDir /\ ~joy.selAct) => LinesValue(joy) = 15

\* a request appears only through a falling line and disappears only by being collected
RequestLaw == [][ /\ (joy'.pending /\ ~joy.pending) => Falls(joy, joy')
                  /\ (Falls(joy, joy') => joy'.pending)
                  /\ (joy.pending /\ ~joy'.pending) => (reported' = TRUE /\ joy'.pressed = joy.pressed) ]_<<joy, reported>>
\* a release or a press of an unselected button never requests
=============================================================================
