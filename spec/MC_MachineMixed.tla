------------------------------ MODULE MC_MachineMixed ------------------------------
(***************************************************************************)
(* MIXED STEPPING variant of MC_Machine: each emulator step is either an      *)
(* instruction step or a block step.                                        *)
(* Model checking of the whole machine (Machine.tla) on a small interrupt- *)
(* driven program, against an environment that presses and releases        *)
(* buttons at arbitrary moments: every interleaving of emulator steps      *)
(* (instruction-stepped Core::update) and joypad events up to MaxSteps /   *)
(* MaxEvents.                                                              *)
(*                                                                         *)
(*   0x0040  RETI                      (VBlank handler)                    *)
(*   0x0060  INC B ; RETI              (joypad handler)                    *)
(*   0x0100  LD SP,0xDFF0                                                  *)
(*           LD A,0x10 ; LDH (0x00),A  (select the action buttons)         *)
(*           LD A,0x11 ; LDH (0xFF),A  (enable VBlank and joypad)          *)
(*           EI                                                            *)
(*   loop:   HALT ; INC C ; JR loop                                        *)
(*                                                                         *)
(* System-level laws checked in every reachable state: time conservation   *)
(* (the divider and the LCD position are functions of the machine cycles   *)
(* charged so far), at most five cycles pending, nothing enabled left      *)
(* pending with the master enable on, a halted CPU has nothing pending,    *)
(* the stack stays balanced, the handler runs at most once per press.      *)
(***************************************************************************)
EXTENDS Machine

CONSTANTS MaxSteps, MaxEvents, Buttons
VARIABLES m, cycles, steps, events, presses
vars == <<m, cycles, steps, events, presses>>

Prog == (64 :> 217) @@ (96 :> 4) @@ (97 :> 217)
        @@ (256 :> 49) @@ (257 :> 240) @@ (258 :> 223)
        @@ (259 :> 62) @@ (260 :> 16) @@ (261 :> 224) @@ (262 :> 0)
        @@ (263 :> 62) @@ (264 :> 17) @@ (265 :> 224) @@ (266 :> 255)
        @@ (267 :> 251)
        @@ (268 :> 118) @@ (269 :> 12) @@ (270 :> 24) @@ (271 :> 252)

Init == /\ m = PowerOnMachine(C!NewCart(0, 0, 0), [ZeroCpu EXCEPT !.pc = 256], Prog, 0)
        /\ cycles = 0 /\ steps = 0 /\ events = 0 /\ presses = 0

Step == /\ steps < MaxSteps /\ steps' = steps + 1
        /\ LET r == UpdateInstr(m) IN r.ok /\ m' = r.m /\ cycles' = cycles + r.cyc
        /\ UNCHANGED <<events, presses>>
PressEv == /\ events < MaxEvents /\ events' = events + 1
           /\ \E b \in Buttons : m' = PressButton(m, b) /\ presses' = presses + (IF b \notin m.js.pressed THEN 1 ELSE 0)
           /\ UNCHANGED <<cycles, steps>>
ReleaseEv == /\ events < MaxEvents /\ events' = events + 1
             /\ \E b \in Buttons : m' = ReleaseButton(m, b)
             /\ UNCHANGED <<cycles, steps, presses>>
\* the emulator may also run a whole block where one has been compiled: any mixture of the two stepping modes
StepB == /\ steps < MaxSteps /\ steps' = steps + 1
         /\ LET r == UpdateBlock(m) IN r.ok /\ m' = r.m /\ cycles' = cycles + r.cyc
         /\ UNCHANGED <<events, presses>>
Next == Step \/ StepB \/ PressEv \/ ReleaseEv
Spec == Init /\ [][Next]_vars

\* cycles charged but not yet delivered are only ever the five of a dispatch
PendingLaw == m.pend \in {0, 5}
\* time conservation at system level: DIV is never written by this program, the LCD is free-running
Delivered == 4 * cycles          \* r.cyc is what the step delivered (its own cycles plus those pending from a dispatch)
TimeLaw == /\ m.t.div = Delivered % 65536
           /\ m.p.q = (144 * 456 + Delivered) % 70224
\* after the interrupt check nothing enabled is left pending with the master enable on
SampledLaw == ~(m.ime = "Enabled" /\ (m.iflag & m.ie) # 0)
\* a halted CPU has nothing enabled pending
HaltLaw == m.run = "Halt" => (m.iflag & m.ie) = 0
\* the stack is balanced: at most one interrupt frame on it
StackLaw == m.s.sp \in {57328, 57326, 0}
\* the joypad handler ran at most once per press of a selected button
HandlerLaw == m.s.b <= presses
\* the program counter stays inside the program
PcLaw == m.s.pc \in {64, 96, 97} \cup (256..271)
=============================================================================
