------------------------------- MODULE ApaTimer -------------------------------
(***************************************************************************)
(* Typed restatement of the elapsed-time part of Timer.tla for Apalache.    *)
(* C13: "the resulting DIV, TIMA and interrupt request do not depend on how *)
(* the elapsed time was split into catch-up batches".                       *)
(*                                                                         *)
(* Timer!Run(t, n) moves the divider to (div + n) % 65536 and applies       *)
(* K = Edges(div, n, tac) TIMA increments.  EdgesAdditive says that the     *)
(* divider and the NUMBER of increments are the same whether a + b clocks   *)
(* elapse in one batch or in two, for EVERY divider phase, TAC value and    *)
(* every a, b up to 2^24 clocks (TLC's Thm_Timer enumerates a grid).  What  *)
(* k increments do to (TIMA, TMA) is a fold of Inc that does not mention    *)
(* time at all; that the closed form equals the fold is Thm_Timer's         *)
(* ClosedFormIsIterated (TLC).                                             *)
(*                                                                         *)
(* The full statement Additive (with the reload term                        *)
(* (k - room) % (256 - TMA), a modulus by a variable) is kept below: z3 did *)
(* not decide it within 25 minutes (non-linear integer arithmetic).         *)
(*   apalache-mc check --init=Init --inv=EdgesAdditive --length=0 ApaTimer.tla *)
(***************************************************************************)
EXTENDS Integers

VARIABLES
  \* @type: Int;
  div,
  \* @type: Int;
  tac,
  \* @type: Int;
  tima,
  \* @type: Int;
  tma,
  \* @type: Int;
  a,
  \* @type: Int;
  b

Period(c) == IF c % 4 = 0 THEN 1024 ELSE IF c % 4 = 1 THEN 16 ELSE IF c % 4 = 2 THEN 64 ELSE 256
Enabled(c) == (c \div 4) % 2 = 1
Edges(d, n, c) == ((d + n) \div Period(c)) - (d \div Period(c))

\* Timer!Run on the tuple (div, tima); tma and tac do not change
DivAfter(d, n) == (d + n) % 65536
K(d, n, c) == IF Enabled(c) THEN Edges(d, n, c) ELSE 0
TimaAfter(d, t, m, c, n) == LET k == K(d, n, c) IN IF k < 256 - t THEN t + k ELSE m + ((k - (256 - t)) % (256 - m))
IrqAfter(d, t, c, n) == K(d, n, c) >= 256 - t

Init == /\ div \in 0..65535 /\ tac \in 0..7 /\ tima \in 0..255 /\ tma \in 0..255
        /\ a \in 0..16777216 /\ b \in 0..16777216
Next == UNCHANGED <<div, tac, tima, tma, a, b>>

EdgesAdditive ==
  LET d1 == DivAfter(div, a)
  IN /\ DivAfter(d1, b) = DivAfter(div, a + b)
     /\ K(div, a, tac) + K(d1, b, tac) = K(div, a + b, tac)
     /\ K(div, a, tac) >= 0

\* before any overflow the closed form is additive as a whole (no reload term involved)
AdditiveNoOverflow ==
  LET d1 == DivAfter(div, a)
      t1 == TimaAfter(div, tima, tma, tac, a)
  IN K(div, a + b, tac) < 256 - tima =>
       /\ TimaAfter(d1, t1, tma, tac, b) = TimaAfter(div, tima, tma, tac, a + b)
       /\ ~IrqAfter(div, tima, tac, a) /\ ~IrqAfter(d1, t1, tac, b)

Additive ==
  LET d1 == DivAfter(div, a)
      t1 == TimaAfter(div, tima, tma, tac, a)
  IN /\ DivAfter(d1, b) = DivAfter(div, a + b)
     /\ TimaAfter(d1, t1, tma, tac, b) = TimaAfter(div, tima, tma, tac, a + b)
     /\ (IrqAfter(div, tima, tac, a) \/ IrqAfter(d1, t1, tac, b)) <=> IrqAfter(div, tima, tac, a + b)
=============================================================================
