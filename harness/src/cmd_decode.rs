//! C06: the decode table exported by TLC (Gen_Decode.tla) against
//! decoder::decode, Op::is_block_end and what interpreter::run_next_op does to
//! ip and cycles in all 16 flag states; the eleven undefined opcodes must be refused.
use crate::cache::CodeCache;
use crate::decoder::decode;
use crate::decoder::ops::Op;
use crate::interpreter;
use crate::util::*;
use crate::world::*;
use serde_json::{json, Value};
use std::panic::{catch_unwind, AssertUnwindSafe};

pub fn run(args: &[String]) {
  let rows: Value = serde_json::from_str(&std::fs::read_to_string(arg_value(args, "--table").expect("--table")).unwrap()).unwrap();
  let rows = rows.as_array().unwrap();
  silence_panics();
  let mut core = plain_core();
  let p = mem_ptr(&mut core);
  let mut checks = 0u64;
  let mut rng = Rng::new(seed_from_env() ^ 0x06);
  for row in rows {
    let op = ju(&row["op"]) as u8; let cbv = row["cb"].as_i64().unwrap();
    let defined = row["defined"].as_bool().unwrap();
    let len = ju(&row["len"]) as usize;
    let be = row["blockEnd"].as_bool().unwrap();
    let cyc: Vec<u64> = row["cyc"].as_array().unwrap().iter().map(ju).collect();
    let mut bad: Vec<Value> = Vec::new();
    // (1) decoder: length, base cycles and block end do not depend on the operand bytes
    for k in 0..24 {
      let b1 = if op == 0xcb { cbv as u8 } else if k < 8 { [0u8, 1, 0x7f, 0x80, 0xff, 0x10, 0xcb, 0x76][k] } else { rng.byte() };
      let b2 = if k < 8 { [0u8, 0xff, 0x80, 1, 0x7f, 0xc3, 0xcb, 0x10][k] } else { rng.byte() };
      let bytes = [op, b1, b2];
      let r = catch_unwind(|| decode(&bytes));
      checks += 1;
      match r {
        Ok((o, l, c)) => {
          let inv = matches!(o, Op::Invalid(_));
          if inv == defined { bad.push(json!({"what": "defined", "decoded_invalid": inv})); }
          if defined {
            if l != len { bad.push(json!({"what": "length", "got": l, "b1": b1, "b2": b2})); }
            if o.is_block_end() != be { bad.push(json!({"what": "block_end", "got": o.is_block_end()})); }
            // (the decoder's cycle column is only a base value for jumps; what the interpreter charges is checked below)
            let _ = c;
          }
        },
        Err(_) => bad.push(json!({"what": "decode_panicked", "b1": b1, "b2": b2})),
      }
      if !bad.is_empty() { break; }
    }
    // (2) interpreter: ip advance and cycles in every flag state (code in work RAM, pointers in work RAM)
    let pc: u32 = 0xc000;
    let (b1, b2) = if op == 0xcb { (cbv as u8, 0u8) } else if op == 0xe0 || op == 0xf0 { (0x80, 0) } else if len == 2 { (0x05, 0) } else { (0x00, 0xc8) };
    for fi in 0..16usize {
      poke(&mut core, pc as u16, op); poke(&mut core, pc as u16 + 1, b1); poke(&mut core, pc as u16 + 2, b2);
      poke(&mut core, 0xc900, 0x00); poke(&mut core, 0xc901, 0xc8);   // word a RET would pop
      let r = &mut core.registers;
      r.af = 0x5a00 | (fi as u32) << 4; r.bc = 0xc880; r.de = 0xc820; r.hl = 0xc800; r.sp = 0xc900; r.ip = pc; r.cycles = 0;
      let before = (r.af, r.bc, r.de, r.hl, r.sp, r.ip);
      rec_start();
      let res = catch_unwind(AssertUnwindSafe(|| interpreter::run_next_op(&mut core.registers, p)));
      let log = rec_stop();
      checks += 1;
      let r = &core.registers;
      let after = (r.af, r.bc, r.de, r.hl, r.sp, r.ip);
      let (ip, cycles) = (r.ip, r.cycles);
      if !defined {
        // refused: a panic, or no effect at all. Anything else executes the opcode as something it is not.
        let refused = res.is_err() || (before == after && writes_only(&log).is_empty());
        if !refused { bad.push(json!({"what": "undefined_executed", "f": fi * 16, "ip": ip})); }
        continue;
      }
      match res {
        Ok(Some((_, isbe))) => {
          if isbe != be { bad.push(json!({"what": "interp_block_end", "got": isbe})); }
          if cycles as u64 != cyc[fi] { bad.push(json!({"what": "interp_cycles", "f": fi * 16, "got": cycles, "exp": cyc[fi]})); }
          let taken = cyc[fi] != *cyc.iter().min().unwrap();
          let cond = row["cond"].as_i64().unwrap();
          if (!be || (cond >= 0 && !taken)) && ip != pc + len as u32 { bad.push(json!({"what": "interp_length", "f": fi * 16, "ip": ip})); }
        },
        _ => bad.push(json!({"what": "interp_refused_defined", "f": fi * 16})),
      }
      if bad.len() > 3 { break; }
    }
    // (3) translated code must refuse undefined opcodes too (in ROM)
    if !defined {
      core.memory.rom[0x150] = op; core.memory.rom[0x151] = 0x76;
      core.cache = CodeCache::new();
      let memp = core.memory.as_ptr();
      let r = catch_unwind(AssertUnwindSafe(|| core.cache.translate_code_block(&core.memory.rom, 0x150, memp)));
      checks += 1;
      if r.is_ok() { bad.push(json!({"what": "undefined_translated"})); }
      core.cache = CodeCache::new();
    }
    if !bad.is_empty() { println!("{}", json!({"kind": "mismatch", "op": op, "cb": cbv, "bad": bad})); }
  }
  println!("{}", json!({"kind": "summary", "rows": rows.len(), "checks": checks}));
}
