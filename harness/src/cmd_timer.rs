//! C13: records timer histories from the real code (register writes through
//! the bus, elapsed time through Timer::run_cycles or the whole
//! MemoryAreas::run_clock_cycles path) for validation by Trace_Timer.tla.
use crate::mem::{memory_read_byte, memory_write_byte};
use crate::timing::ClockCycles;
use crate::util::*;
use crate::world::*;
use crate::emulator::Core;
use serde_json::json;
use std::io::Write;

fn emit(out: &mut Vec<u8>, core: &mut Core, ev: &str, arg: u64, irq: u64) {
  let p = mem_ptr(core);
  let div16 = core.memory.io.timer.verif_get_cycle_count();
  let tima = memory_read_byte(p, 0xff05);
  let tma = memory_read_byte(p, 0xff06);
  let tac = memory_read_byte(p, 0xff07);
  let div = memory_read_byte(p, 0xff04);
  // DIV as read through the bus must be the high byte of the divider
  let div_word = if div as u32 == (div16 >> 8) & 0xff && div16 <= 0xffff { div16 } else { 0x10000 + div as u32 };
  writeln!(out, "{}", json!({"ev": ev, "arg": arg, "div": div_word, "tima": tima, "tma": tma, "tac": tac, "irq": irq})).unwrap();
}

/// advance by n clocks; multiples of 4 go through the whole device catch-up
/// and IF, other sizes through the timer's own entry point
fn advance(core: &mut Core, n: usize, via_bus: bool) -> u64 {
  if via_bus && n % 4 == 0 {
    let p = mem_ptr(core);
    let before = core.memory.io.interrupt_flag.as_u8();
    memory_write_byte(p, 0xff0f, before & !4);
    core.memory.run_clock_cycles(ClockCycles(n));
    let after = core.memory.io.interrupt_flag.as_u8();
    memory_write_byte(p, 0xff0f, (after & !4) | (before & 4));
    (after >> 2 & 1) as u64
  } else {
    (core.memory.io.timer.run_cycles(ClockCycles(n)).as_u8() >> 2 & 1) as u64
  }
}

fn write_reg(core: &mut Core, addr: u16, v: u8) -> u64 {
  let p = mem_ptr(core);
  let before = core.memory.io.interrupt_flag.as_u8();
  memory_write_byte(p, 0xff0f, before & !4);
  memory_write_byte(p, addr, v);
  let after = core.memory.io.interrupt_flag.as_u8();
  memory_write_byte(p, 0xff0f, (after & !4) | (before & 4));
  (after >> 2 & 1) as u64
}

const BATCHES: [usize; 22] = [1, 2, 3, 4, 5, 7, 8, 12, 15, 16, 17, 20, 24, 63, 64, 100, 255, 256, 1024, 4096, 70224, 100000];

pub fn trace(args: &[String]) {
  let n = arg_usize(args, "--events", 20000);
  let mode = arg_value(args, "--mode").unwrap_or("random".into());
  let mut rng = Rng::new(seed_from_env() ^ 0x13);
  let mut out: Vec<u8> = Vec::new();
  let mut core = plain_core();
  let mut count = 0usize;
  if mode == "sweep" {
    // directed: every divider phase of a window x every TAC value x a batch, then a TAC rewrite
    let mut phase: u32 = 0;
    while count < n {
      for tac in 0..8u8 {
        core = plain_core();
        emit(&mut out, &mut core, "reset", 0, 0);
        core.memory.io.timer.verif_set_cycle_count(phase);
        emit(&mut out, &mut core, "phase", phase as u64, 0);
        let tima = *rng.pick(&[0u8, 1, 254, 255, 128]);
        let tma = *rng.pick(&[0u8, 255, 200, 254]);
        write_reg(&mut core, 0xff05, tima); emit(&mut out, &mut core, "wtima", tima as u64, 0);
        write_reg(&mut core, 0xff06, tma); emit(&mut out, &mut core, "wtma", tma as u64, 0);
        let i = write_reg(&mut core, 0xff07, tac); emit(&mut out, &mut core, "wtac", tac as u64, i);
        let b = *rng.pick(&BATCHES);
        let i = advance(&mut core, b, rng.chance(1, 2)); emit(&mut out, &mut core, "adv", b as u64, i);
        let tac2 = rng.byte() & 7;
        let i = write_reg(&mut core, 0xff07, tac2); emit(&mut out, &mut core, "wtac", tac2 as u64, i);
        let b = *rng.pick(&BATCHES);
        let i = advance(&mut core, b, rng.chance(1, 2)); emit(&mut out, &mut core, "adv", b as u64, i);
        count += 8;
      }
      phase = if phase < 2100 { phase + 1 } else if phase < 65000 { 65000 } else if phase < 65535 { phase + 1 } else { 0 };
    }
  } else {
    let mut left = 0usize;
    while count < n {
      if left == 0 {
        core = plain_core();
        emit(&mut out, &mut core, "reset", 0, 0);
        left = 10 + rng.below(300) as usize;
        count += 1;
        continue;
      }
      left -= 1;
      count += 1;
      match rng.below(16) {
        0 => { let d = if rng.chance(1, 2) { rng.word() as u32 } else { *rng.pick(&[0u32, 7, 8, 15, 16, 511, 512, 1023, 65535, 65528]) };
               core.memory.io.timer.verif_set_cycle_count(d); emit(&mut out, &mut core, "phase", d as u64, 0); },
        1 => { let v = rng.byte(); let i = write_reg(&mut core, 0xff04, v); emit(&mut out, &mut core, "wdiv", v as u64, i); },
        2 | 3 => { let v = if rng.chance(1, 2) { rng.byte() } else { *rng.pick(&[0u8, 254, 255]) };
               write_reg(&mut core, 0xff05, v); emit(&mut out, &mut core, "wtima", v as u64, 0); },
        4 => { let v = if rng.chance(1, 2) { rng.byte() } else { *rng.pick(&[0u8, 254, 255]) };
               write_reg(&mut core, 0xff06, v); emit(&mut out, &mut core, "wtma", v as u64, 0); },
        5 | 6 | 7 => { let v = if rng.chance(3, 4) { rng.byte() & 7 } else { rng.byte() };
               let i = write_reg(&mut core, 0xff07, v); emit(&mut out, &mut core, "wtac", v as u64, i); },
        _ => { let b = if rng.chance(2, 3) { *rng.pick(&BATCHES) } else { 1 + rng.below(100000) as usize };
               let i = advance(&mut core, b, rng.chance(1, 2)); emit(&mut out, &mut core, "adv", b as u64, i); },
      }
    }
  }
  std::io::stdout().write_all(&out).unwrap();
}

/// Partition runs: one scenario (start state, register writes at fixed times,
/// total time) delivered under different batch partitions must end in the same
/// state. Prints one trace per partition, separated by reset records.
pub fn partitions(args: &[String]) {
  let scenarios = arg_usize(args, "--scenarios", 50);
  let mut rng = Rng::new(seed_from_env() ^ 0x1313);
  let mut out: Vec<u8> = Vec::new();
  let mut finals: Vec<serde_json::Value> = Vec::new();
  for s in 0..scenarios {
    let phase = rng.word() as u32;
    let tima = rng.byte(); let tma = rng.byte(); let tac = 4 | (rng.byte() & 3);
    // segments of time between register writes
    let segs: Vec<usize> = (0..3).map(|_| 4 * (1 + rng.below(3000) as usize)).collect();
    let tac_mid = rng.byte() & 7;
    let mut ends: Vec<(u32, u8, u8, u8, u64)> = Vec::new();
    for part in 0..8 {
      let mut core = plain_core();
      emit(&mut out, &mut core, "reset", 0, 0);
      core.memory.io.timer.verif_set_cycle_count(phase); emit(&mut out, &mut core, "phase", phase as u64, 0);
      write_reg(&mut core, 0xff05, tima); emit(&mut out, &mut core, "wtima", tima as u64, 0);
      write_reg(&mut core, 0xff06, tma); emit(&mut out, &mut core, "wtma", tma as u64, 0);
      let i = write_reg(&mut core, 0xff07, tac); emit(&mut out, &mut core, "wtac", tac as u64, i);
      let mut irqs = 0u64;
      for (si, seg) in segs.iter().enumerate() {
        let mut left = *seg;
        while left > 0 {
          let b = match part { 0 => left, 1 => 4, 2 => 1, 3 => 8, 4 => 1 + rng.below(64) as usize,
                               5 => 4 * (1 + rng.below(40) as usize), 6 => 1 + rng.below(2000) as usize, _ => 16 };
          let b = b.min(left);
          let i = advance(&mut core, b, part % 2 == 1); emit(&mut out, &mut core, "adv", b as u64, i);
          irqs |= i;
          left -= b;
        }
        if si == 0 { let i = write_reg(&mut core, 0xff07, tac_mid); emit(&mut out, &mut core, "wtac", tac_mid as u64, i); irqs |= i; }
      }
      let t = &core.memory.io.timer;
      ends.push((t.verif_get_cycle_count(), t.get_counter(), t.get_modulo(), t.get_timer_control(), irqs));
    }
    let same = ends.iter().all(|e| *e == ends[0]);
    finals.push(json!({"scenario": s, "same": same, "ends": ends.iter().map(|e| json!([e.0, e.1, e.2, e.3, e.4])).collect::<Vec<_>>()}));
  }
  std::io::stdout().write_all(&out).unwrap();
  for f in finals { eprintln!("{}", f); }
}
