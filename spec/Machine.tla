------------------------------- MODULE Machine -------------------------------
(***************************************************************************)
(* The whole emulated machine: CPU (SM83), memory map, cartridge, timer,   *)
(* LCD schedule, joypad, serial port, OAM DMA, interrupt controller, and   *)
(* the emulator's step functions in the order the code performs them:      *)
(*                                                                         *)
(*   StepInstr  one instruction (Core::run_interp)                         *)
(*   StepBlock  one basic block (Core::run_code_block)                     *)
(*   HaltTick   one machine cycle of a halted/stopped CPU (Core::update)   *)
(* each followed by CatchUp (devices advance by 4 x machine cycles) and    *)
(* Dispatch (interrupt check).                                             *)
(*                                                                         *)
(* m = [s    : CPU registers (SM83.tla),                                   *)
(*      ime  : "Enabled" | "Disabled" | "EnableNext",                      *)
(*      run  : "Run" | "Halt" | "Stop",                                    *)
(*      pend : machine cycles charged but not yet delivered to the devices *)
(*             (the 5 cycles of an interrupt dispatch),                    *)
(*      mem  : sparse RAM: key -> byte (absent = 0); keys are bus          *)
(*             addresses for VRAM/WRAM/OAM/HRAM and 0x100000 + physical    *)
(*             index for cartridge RAM,                                    *)
(*      cart : Cart.tla,  iflag, ie : 0..31,                               *)
(*      t : Timer.tla,  p : Lcd.tla,  js : Joypad.tla,  d : Dma.tla,       *)
(*      sb, sc : serial data / control,                                    *)
(*      regs : plain byte registers by I/O offset (LCDC, SCY, ...),        *)
(*      rom  : sparse cartridge ROM image: physical index -> byte,         *)
(*      romfill : the byte at every index not listed in rom]               *)
(*                                                                         *)
(* Named deviations of the emulator from DMG hardware (modelled as the     *)
(* emulator intends them): Dev_EchoZero, Dev_NoRamGate, Dev_NoSerialClock, *)
(* Dev_BlockEI (block stepping has no EI delay), Dev_StatWriteRequest      *)
(* (a STAT/LYC write requests STAT at once when LY=LYC and bit 6 is set),  *)
(* plus those named in Timer, Lcd and Dma.                                 *)
(***************************************************************************)
EXTENDS SM83, TLC

C == INSTANCE Cart
T == INSTANCE Timer
L == INSTANCE Lcd
J == INSTANCE Joypad
D == INSTANCE Dma
S == INSTANCE Serial

PlainRegs == {64, 66, 67, 71, 72, 73, 74, 75}    \* LCDC SCY SCX BGP OBP0 OBP1 WY WX (offsets in page 0xFF)

PowerOnMachine(cart, cpu, rom, romfill) ==
  [rom |-> rom, romfill |-> romfill, s |-> cpu, ime |-> "Disabled", run |-> "Run", pend |-> 0,
   mem |-> << >>, cart |-> cart, iflag |-> 0, ie |-> 0,
   t |-> T!PowerOn, p |-> L!PowerOn, js |-> J!PowerOn, d |-> D!Idle,
   sb |-> 0, sc |-> 0, regs |-> [r \in PlainRegs |-> 0]]

BootCpu == [a |-> 1, f |-> 176, b |-> 0, c |-> 19, d |-> 0, e |-> 216, h |-> 1, l |-> 77, sp |-> 65534, pc |-> 256]
ZeroCpu == [a |-> 0, f |-> 0, b |-> 0, c |-> 0, d |-> 0, e |-> 0, h |-> 0, l |-> 0, sp |-> 0, pc |-> 0]

(* ------------------------------------------------------------------ *)
(* Memory map                                                          *)
(* ------------------------------------------------------------------ *)
MemGet(mem, k) == IF k \in DOMAIN mem THEN mem[k] ELSE 0
MemPut(mem, k, v) == IF k \in DOMAIN mem THEN [mem EXCEPT ![k] = v]
                     ELSE [x \in DOMAIN mem \cup {k} |-> IF x = k THEN v ELSE mem[x]]
RomByte(m, i) == IF i \in DOMAIN m.rom THEN m.rom[i] ELSE m.romfill
XramKey(cart, a) == 1048576 + C!RamIndex(cart, a)

IoRead(m, a) ==
  LET r == a % 256 IN
  CASE r = 0  -> J!P1(m.js)                        \* bits 6-7 read 0
    [] r = 4  -> T!ReadDIV(m.t)
    [] r = 5  -> m.t.tima
    [] r = 6  -> m.t.tma
    [] r = 7  -> m.t.tac
    [] r = 15 -> m.iflag + 224
    [] r = 65 -> L!ReadSTAT(m.p)                   \* bit 7 reads 0
    [] r = 68 -> L!ReadLY(m.p)
    [] r = 69 -> m.p.lyc
    [] r \in PlainRegs -> m.regs[r]
    [] OTHER -> 255                                \* SB, SC, 0xFF46 and unassigned registers

MRead(m, a) ==
  CASE a < 32768 -> RomByte(m, C!RomIndex(m.cart, a))
    [] a < 40960 -> MemGet(m.mem, a)
    [] a < 49152 -> IF C!HasRam(m.cart) THEN MemGet(m.mem, XramKey(m.cart, a)) ELSE C!NoRamValue
    [] a < 57344 -> MemGet(m.mem, a)
    [] a < 65024 -> 0                               \* Dev_EchoZero
    [] a < 65184 -> MemGet(m.mem, a)
    [] a < 65280 -> 0
    [] a < 65408 -> IoRead(m, a)
    [] a < 65535 -> MemGet(m.mem, a)
    [] OTHER -> m.ie

\* A bus write returns the machine and the bytes it put on the serial line
W(m, out) == [m |-> m, out |-> out]
Raise(m, bit) == [m EXCEPT !.iflag = SetBit(m.iflag, bit)]
StatWriteRequest(m) == IF L!ReadLY(m.p) = m.p.lyc /\ Bit(m.p.en, 6) = 1 THEN Raise(m, 1) ELSE m

IoWrite(m, a, v) ==
  LET r == a % 256 IN
  CASE r = 0  -> W([m EXCEPT !.js = J!Select(m.js, v)], << >>)
    [] r = 1  -> W([m EXCEPT !.sb = S!WriteSB([sb |-> m.sb, sc |-> m.sc], v).sp.sb], << >>)
    [] r = 2  -> (LET x == S!WriteSC([sb |-> m.sb, sc |-> m.sc], v) IN W([m EXCEPT !.sc = x.sp.sc], x.out))
    [] r = 4  -> W([m EXCEPT !.t = [m.t EXCEPT !.div = 0]], << >>)          \* Dev_NoDivGlitch
    [] r = 5  -> W([m EXCEPT !.t = T!WriteTIMA(m.t, v)], << >>)
    [] r = 6  -> W([m EXCEPT !.t = T!WriteTMA(m.t, v)], << >>)
    [] r = 7  -> (LET x == T!WriteTAC(m.t, v) IN W(IF x.irq THEN Raise([m EXCEPT !.t = x.t], 2) ELSE [m EXCEPT !.t = x.t], << >>))
    [] r = 15 -> W([m EXCEPT !.iflag = v % 32], << >>)
    [] r = 65 -> W(StatWriteRequest([m EXCEPT !.p = L!WriteSTAT(m.p, v)]), << >>)
    [] r = 69 -> W(StatWriteRequest([m EXCEPT !.p = L!WriteLYC(m.p, v)]), << >>)
    [] r = 70 -> W([m EXCEPT !.d = D!Start(v)], << >>)
    [] r \in PlainRegs -> W([m EXCEPT !.regs[r] = v], << >>)
    [] OTHER -> W(m, << >>)

MWrite(m, a, v) ==
  CASE a < 32768 -> W([m EXCEPT !.cart = C!MbcWrite(m.cart, a, v)], << >>)
    [] a < 40960 -> W([m EXCEPT !.mem = MemPut(m.mem, a, v)], << >>)
    [] a < 49152 -> IF C!HasRam(m.cart) THEN W([m EXCEPT !.mem = MemPut(m.mem, XramKey(m.cart, a), v)], << >>) ELSE W(m, << >>)
    [] a < 57344 -> W([m EXCEPT !.mem = MemPut(m.mem, a, v)], << >>)
    [] a < 65024 -> W(m, << >>)
    [] a < 65184 -> W([m EXCEPT !.mem = MemPut(m.mem, a, v)], << >>)
    [] a < 65280 -> W(m, << >>)
    [] a < 65408 -> IoWrite(m, a, v)
    [] a < 65535 -> W([m EXCEPT !.mem = MemPut(m.mem, a, v)], << >>)
    [] OTHER -> W([m EXCEPT !.ie = v % 32], << >>)

RECURSIVE MWriteAll(_, _, _)
MWriteAll(m, wr, out) ==
  IF wr = << >> THEN W(m, out)
  ELSE LET x == MWrite(m, Head(wr)[1], Head(wr)[2]) IN MWriteAll(x.m, Tail(wr), out \o x.out)

\* addresses instructions can be fetched from
Executable(a) == a < 32768 \/ (a >= 49152 /\ a < 57344) \/ (a >= 65408 /\ a < 65535)

(* ------------------------------------------------------------------ *)
(* CPU step                                                            *)
(* ------------------------------------------------------------------ *)
\* one instruction: [m, st, cyc, out, wr, be, ok]
ExecM(m) ==
  LET op == MRead(m, m.s.pc) IN
  IF op \in Undefined \/ ~Executable(m.s.pc)
  THEN [m |-> m, st |-> StNormal, cyc |-> 0, out |-> << >>, wr |-> << >>, be |-> TRUE, ok |-> FALSE]
  ELSE LET o == Exec(m.s, LAMBDA a : MRead(m, a))
           x == MWriteAll([m EXCEPT !.s = o.s], o.wr, << >>)
       IN [m |-> x.m, st |-> o.st, cyc |-> o.cyc, out |-> x.out, wr |-> o.wr, be |-> IsBlockEnd(op), ok |-> TRUE]

\* one basic block: instructions up to and including the first block-ending one
RECURSIVE BlockAcc(_, _, _, _, _)
BlockAcc(m, cyc, out, wr, n) ==
  LET e == ExecM(m) IN
  IF ~e.ok THEN [m |-> m, st |-> StNormal, cyc |-> cyc, out |-> out, wr |-> wr, n |-> n, ok |-> FALSE]
  ELSE IF e.be THEN [m |-> e.m, st |-> e.st, cyc |-> cyc + e.cyc, out |-> out \o e.out, wr |-> wr \o e.wr, n |-> n + 1, ok |-> TRUE]
  ELSE BlockAcc(e.m, cyc + e.cyc, out \o e.out, wr \o e.wr, n + 1)
ExecBlockM(m) == BlockAcc(m, 0, << >>, << >>, 0)

(* ------------------------------------------------------------------ *)
(* Devices catch up by `clocks' (a multiple of 4)                      *)
(* ------------------------------------------------------------------ *)
DmaStep(m, k) ==
  IF ~m.d.active THEN m
  ELSE LET c == D!Count(m.d, k, 160)
           base == 256 * m.d.page
           \* bytes are read through the map as it is now; only OAM changes meanwhile, and a
           \* transfer from the OAM page copies each byte onto itself
           mem1 == [x \in DOMAIN m.mem \cup {65024 + i : i \in m.d.off..(m.d.off + c - 1)} |->
                      IF x >= 65024 + m.d.off /\ x < 65024 + m.d.off + c
                      THEN MRead(m, (base + (x - 65024)) % 65536)
                      ELSE m.mem[x]]
           off1 == m.d.off + c
       IN [m EXCEPT !.mem = mem1, !.d = IF off1 < 160 THEN [m.d EXCEPT !.off = off1] ELSE D!Idle]

\* the bus writes of the DMA engine during k machine cycles, in order
DmaWrites(m, k) ==
  IF ~m.d.active THEN << >>
  ELSE LET c == D!Count(m.d, k, 160) IN
       [i \in 1..c |-> <<65024 + m.d.off + i - 1, MRead(m, (256 * m.d.page + m.d.off + i - 1) % 65536)>>]

\* [m |-> machine afterwards, wr |-> bus writes performed by the DMA engine]
CatchUp(m, clocks) ==
  LET m1 == DmaStep(m, clocks \div 4)
      tr == T!Run(m1.t, clocks)
      lr == L!Run(m1.p, clocks)
      jc == J!Collect(m1.js)
      bits == (IF "vblank" \in lr.req THEN 1 ELSE 0) + (IF "stat" \in lr.req THEN 2 ELSE 0)
              + (IF tr.irq THEN 4 ELSE 0) + (IF jc.out THEN 16 ELSE 0)
  IN [m |-> [m1 EXCEPT !.t = tr.t, !.p = lr.p, !.js = jc.js, !.iflag = m1.iflag | bits],
      wr |-> DmaWrites(m, clocks \div 4)]

(* ------------------------------------------------------------------ *)
(* Interrupt check (generalises Irq!Dispatch: the pushes go through    *)
(* the full bus)                                                       *)
(* ------------------------------------------------------------------ *)
PendingM(m) == m.iflag & m.ie
\* [m, out, wr, dispatched]
DispatchM(m) ==
  IF PendingM(m) = 0 THEN [m |-> m, out |-> << >>, wr |-> << >>, disp |-> FALSE]
  ELSE LET woken == [m EXCEPT !.run = "Run"] IN
    IF m.ime # "Enabled" THEN [m |-> woken, out |-> << >>, wr |-> << >>, disp |-> FALSE]
    ELSE LET pc == m.s.pc
             a1 == W16(m.s.sp - 1)
             a2 == W16(m.s.sp - 2)
             w1 == MWrite([woken EXCEPT !.ime = "Disabled"], a1, Hi(pc))
             p2 == PendingM(w1.m)
             w2 == MWrite(w1.m, a2, Lo(pc))
             m2 == [w2.m EXCEPT !.s.sp = a2, !.pend = @ + 5]
             wr == << <<a1, Hi(pc)>>, <<a2, Lo(pc)>> >>
         IN IF p2 = 0 THEN [m |-> [m2 EXCEPT !.s.pc = 0], out |-> w1.out \o w2.out, wr |-> wr, disp |-> TRUE]
            ELSE LET b == LowestBit(p2)
                 IN [m |-> [m2 EXCEPT !.s.pc = 64 + 8 * b, !.iflag = ClearBit(m2.iflag, b)],
                     out |-> w1.out \o w2.out, wr |-> wr, disp |-> TRUE]

(* ------------------------------------------------------------------ *)
(* Emulator steps                                                      *)
(* ------------------------------------------------------------------ *)
\* master enable / run state after a step that returned status st
\* instruction stepping: a pending EI takes effect first, then the status of this instruction
ImeAfterInstr(ime, st) ==
  LET i1 == IF ime = "EnableNext" THEN "Enabled" ELSE ime IN
  CASE st = StDI -> "Disabled"
    [] st = StEI -> IF i1 = "Disabled" THEN "EnableNext" ELSE i1
    [] st = StRETI -> "Enabled"
    [] OTHER -> i1
\* block stepping (Dev_BlockEI): EI and RETI enable at once
ImeAfterBlock(ime, st) ==
  CASE st = StDI -> "Disabled" [] st \in {StEI, StRETI} -> "Enabled" [] OTHER -> ime
RunAfter(run, st) == CASE st = StStop -> "Stop" [] st = StHalt -> "Halt" [] OTHER -> run

\* result of a step: [m, out (serial bytes), cyc (machine cycles delivered to the devices), wr, disp, ok]
Finish(m0, cyc, out, wr, ok) ==
  LET total == cyc + m0.pend
      cu == CatchUp([m0 EXCEPT !.pend = 0], 4 * total)
      dd == DispatchM(cu.m)
  IN [m |-> dd.m, out |-> out \o dd.out, cyc |-> total, wr |-> wr \o cu.wr \o dd.wr, disp |-> dd.disp, ok |-> ok]

StepInstr(m) ==
  LET e == ExecM(m)
      m0 == [e.m EXCEPT !.ime = ImeAfterInstr(m.ime, e.st), !.run = RunAfter(m.run, e.st)]
  IN Finish(m0, e.cyc, e.out, e.wr, e.ok)

StepBlock(m) ==
  LET e == ExecBlockM(m)
      m0 == [e.m EXCEPT !.ime = ImeAfterBlock(m.ime, e.st), !.run = RunAfter(m.run, e.st)]
  IN Finish(m0, e.cyc, e.out, e.wr, e.ok)

\* a halted or stopped CPU: the devices advance one machine cycle; cycles already charged stay pending
HaltTick(m) ==
  LET cu == CatchUp(m, 4)
      dd == DispatchM(cu.m)
  IN [m |-> dd.m, out |-> dd.out, cyc |-> 1, wr |-> cu.wr \o dd.wr, disp |-> dd.disp, ok |-> TRUE]

\* Core::update without / with the recompiler feature
UpdateInstr(m) == IF m.run = "Run" THEN StepInstr(m) ELSE HaltTick(m)
UpdateBlock(m) == IF m.run = "Run" THEN StepBlock(m) ELSE HaltTick(m)

\* external events
PressButton(m, b)   == [m EXCEPT !.js = J!Press(m.js, b)]
ReleaseButton(m, b) == [m EXCEPT !.js = J!Release(m.js, b)]
=============================================================================
