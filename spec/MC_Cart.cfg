SPECIFICATION Spec
CONSTANTS
  Types = {0, 1, 19}
  RomCodes = {0, 2, 6, 82}
  RamCodes = {0, 1, 3}
  Addrs = {0, 8191, 8192, 16383, 16384, 24575, 24576, 32767}
  Vals = {0, 1, 3, 10, 31, 32, 33, 96, 127, 255}
INVARIANT TypeOK
INVARIANT InBounds
INVARIANT Bank0Fixed
INVARIANT RomOnlyInert
INVARIANT Masking
INVARIANT ModeSelect
PROPERTY Windows
CHECK_DEADLOCK FALSE
