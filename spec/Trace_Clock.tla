----------------------------- MODULE Trace_Clock -----------------------------
(***************************************************************************)
(* impl -> spec for C09: validates the time projection of recorded machine *)
(* traces (`gbv machine') against Clock.tla.  Only time is constrained:    *)
(* the machine cycles the CPU reported for each step come from the log     *)
(* (hook at get_consumed_cycles), the clocks delivered to timer / LCD /    *)
(* memory bus come from the per-device counters (hooks).                   *)
(***************************************************************************)
EXTENDS Clock, Bitwise, TLC, IOUtils, Json, Sequences

Recs == ndJsonDeserialize(IOEnv.TRACE)
VARIABLES k, d, l            \* d: what the three observers of delivered time showed last: DMA progress, divider, LCD position
NoDma == [dact |-> 0, doff |-> 0, div |-> 0, q |-> 144 * 456]
Init == k = Zero /\ d = NoDma /\ l = 1
IsEvent(e) == l <= Len(Recs) /\ Recs[l].ev = e /\ l' = l + 1
Frame == 70224

\* devices were caught up before interrupts were sampled: nothing enabled is left pending with the master enable on
Sampled(o) == ~(o.ime = "Enabled" /\ (o.iflag & o.ie) # 0)
Delivered(rec, n) == rec.clk[1] = n /\ rec.clk[2] = n /\ rec.clk[3] = n

\* the time of a step reaches the DMA engine too: a transfer in flight (or started by a write to 0xFF46 during the step,
\* which restarts it from offset 0) has advanced by exactly the machine cycles delivered, one byte each, up to 160
\* the three observers are consulted when PACE is set in the environment (C09's runs); other properties that use this
\* module for the cycle accounting alone (C07: the five cycles of a dispatch) leave the devices out of their verdict
Pace == "PACE" \in DOMAIN IOEnv
\* Time is what these laws judge, not what a register write does to a device (that is C13 / C14 / C16): a step in which
\* the guest -- or a dispatch push -- wrote the register concerned is not judged, and the next step starts from what was seen.
Wrote(rec, lo, hi) == \E i \in 1..Len(rec.wr) : rec.wr[i][1] >= lo /\ rec.wr[i][1] <= hi
Seen(rec) == [dact |-> rec.o.dact, doff |-> rec.o.doff, div |-> rec.o.div, q |-> rec.o.q]
\* ... and the divider and the LCD position have moved by exactly the clocks delivered (a write to DIV clears the divider:
\* before the catch-up when an instruction made it, after it when a dispatch push landed there)
ClocksKeptPace(rec, disp) ==
  /\ (Wrote(rec, 65284, 65284) \/ rec.o.div = (d.div + rec.clk[1]) % 65536)
  /\ (Wrote(rec, 65344, 65349) \/ rec.o.q = (d.q + rec.clk[2]) % Frame)
DmaKeptPace(rec, disp) ==
  LET n == rec.clk[3] \div 4
      c == IF 160 - d.doff < n THEN 160 - d.doff ELSE n
  IN IF Wrote(rec, 65350, 65350) THEN TRUE
     ELSE IF d.dact # 1 THEN rec.o.dact = 0
     ELSE IF d.doff + c < 160 THEN rec.o.dact = 1 /\ rec.o.doff = d.doff + c ELSE rec.o.dact = 0

NewHistory == IsEvent("init") /\ k' = Zero /\ d' = NoDma
Passive == /\ l <= Len(Recs) /\ Recs[l].ev \in {"bw", "press", "release", "br", "bf", "tick"} /\ l' = l + 1 /\ UNCHANGED k
           /\ d' = IF "o" \in DOMAIN Recs[l] THEN Seen(Recs[l]) ELSE d
RunningStep ==
  /\ IsEvent("step") /\ Recs[l].k \in {"instr", "block"}
  /\ LET rec == Recs[l]
         c == rec.cpu - k.pend              \* cycles of this step's own instructions
         disp == rec.o.pend = 5
     IN /\ c >= 1                                         \* at least one machine cycle
        /\ Delivered(rec, 4 * rec.cpu)                    \* 4 x (own cycles + cycles pending from a dispatch)
        /\ rec.o.pend \in {0, 5}                          \* five cycles for a dispatch, delivered next step
        /\ k' = RunStep(k, c, disp) /\ Conserved(k')
        /\ Sampled(rec.o)
        /\ (Pace => DmaKeptPace(rec, disp) /\ ClocksKeptPace(rec, disp)) /\ d' = Seen(rec)
HaltedStep ==
  /\ IsEvent("step") /\ Recs[l].k = "halt"
  /\ LET rec == Recs[l]
         disp == rec.o.pend = k.pend + 5
     IN /\ rec.cpu = 0 /\ Delivered(rec, 4)               \* one machine cycle per halted step
        /\ rec.o.pend \in {k.pend, k.pend + 5}
        /\ k' = HaltStep(k, disp) /\ Conserved(k')
        /\ Sampled(rec.o)
        /\ (Pace => DmaKeptPace(rec, disp) /\ ClocksKeptPace(rec, disp)) /\ d' = Seen(rec)
\* stepping to the next frame: ends just after a vertical blanking period, within two frames plus one step
FrameStep ==
  /\ IsEvent("frame")
  /\ LET rec == Recs[l] IN
     /\ rec.clk[1] = rec.clk[2] /\ rec.clk[2] = rec.clk[3] /\ rec.clk[2] >= 4
     /\ rec.clk[2] <= 2 * Frame + 4 * rec.maxstep
     /\ rec.mode # 1 /\ rec.o.q < 144 * 456
     /\ (rec.q0 + rec.clk[2]) % Frame = rec.o.q
     /\ k' = [Zero EXCEPT !.pend = rec.o.pend, !.cpu = rec.o.pend]
     /\ d' = Seen(rec)
Next == NewHistory \/ Passive \/ RunningStep \/ HaltedStep \/ FrameStep
TraceSpec == Init /\ [][Next]_<<k, d, l>>

Matched == TLCGet("stats").diameter - 1
TraceAccepted ==
  IF Matched = Len(Recs) THEN PrintT(<<"TRACE_OK", Len(Recs)>>)
  ELSE /\ PrintT(<<"TRACE_REJECTED", Matched + 1, ToJson(Recs[Matched + 1])>>)
       /\ FALSE
=============================================================================
