SPECIFICATION Spec
CONSTANTS
  DLen = 4
  Pages = {1, 2}
  Vals = {0, 7}
  Batches = {1, 2, 3, 5}
  MaxSteps = 6
INVARIANT BatchingIndependent
INVARIANT Progress
INVARIANT PrefixCopied
INVARIANT Ascending
CHECK_DEADLOCK FALSE
