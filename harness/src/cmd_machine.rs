//! Whole-machine recorder: runs scenarios (ROM image + initial state + step
//! count + external events) on the real Core and logs one event per emulator
//! step with the projected abstract state, for Trace_Machine.tla.
//! Used by C04, C08, C09, C18 and the cache checks.
use crate::emulator::{Core, RunState};
use crate::mem::{memory_read_byte, memory_write_byte};
use crate::cache::CodeCache;
use crate::util::*;
use crate::world::*;
use serde_json::{json, Value};
use std::io::Write;
use std::os::unix::io::AsRawFd;

pub struct Capture { file: std::fs::File, path: String, off: u64 }

impl Capture {
  /// Redirect file descriptor 1 into a file so that what the core prints can be observed.
  pub fn start(path: &str) -> Capture {
    let file = std::fs::OpenOptions::new().create(true).write(true).truncate(true).read(true).open(path).unwrap();
    unsafe { libc::dup2(file.as_raw_fd(), 1); }
    Capture { file, path: path.to_string(), off: 0 }
  }
  pub fn take(&mut self) -> Vec<u8> {
    use std::io::{Read, Seek, SeekFrom};
    let _ = std::io::stdout().flush();
    let mut f = std::fs::File::open(&self.path).unwrap();
    f.seek(SeekFrom::Start(self.off)).unwrap();
    let mut v = Vec::new();
    f.read_to_end(&mut v).unwrap();
    self.off += v.len() as u64;
    v
  }
}

pub fn build_core(sc: &Value) -> Box<Core> {
  let cart = &sc["cart"];
  let ctype = ju(&cart[0]) as u8;
  let banks = crate::world::header_from_bytes(&header_bytes(ctype, ju(&cart[1]) as u8, ju(&cart[2]) as u8)).get_rom_bank_count();
  let ram = crate::world::header_from_bytes(&header_bytes(ctype, ju(&cart[1]) as u8, ju(&cart[2]) as u8)).get_ram_size_bytes();
  let mut core = new_core(ctype, banks, ram);
  let fill = ju(&sc["romfill"]) as u8;
  for b in core.memory.rom.iter_mut() { *b = fill; }
  for chunk in sc["rom"].as_array().unwrap() {
    let base = ju(&chunk[0]) as usize;
    for (i, b) in chunk[1].as_array().unwrap().iter().enumerate() { core.memory.rom[base + i] = ju(b) as u8; }
  }
  Cpu::from_json(&sc["cpu"]).load(&mut core.registers);
  core.interrupts_enabled = ime_from(sc["ime"].as_str().unwrap_or("Disabled"));
  // video RAM / OAM contents loaded behind the bus (graphics programs: the picture is given, the program animates it)
  if let Some(v) = sc["vram"].as_array() { for (k, b) in v.iter().enumerate() { core.memory.video_ram[k] = ju(b) as u8; } }
  if let Some(v) = sc["oam"].as_array() { for (k, b) in v.iter().enumerate() { core.memory.oam_ram[k] = ju(b) as u8; } }
  core
}

pub fn hash_bytes(parts: &[&[u8]]) -> String {
  let mut h: u64 = 0xcbf29ce484222325;
  for p in parts { for x in p.iter() { h = (h ^ (*x as u64)).wrapping_mul(0x100000001b3); } }
  format!("{:016x}", h)
}

pub fn lcd_q(core: &Core) -> u64 {
  let (line, mode, dots) = core.memory.io.video.verif_position();
  let x = match mode { 2 => dots, 3 => 80 + dots, 0 => 268 + dots, _ => dots };
  line as u64 * 456 + x as u64
}

pub fn project(core: &mut Core) -> Value {
  let r = &core.registers;
  let (af, bc, de, hl, sp, ip, cyc) = (r.af, r.bc, r.de, r.hl, r.sp, r.ip, r.cycles);
  let t = &core.memory.io.timer;
  let (dact, dpage, doff) = match core.memory.oam_dma { Some(d) => { let (s, o) = d.verif_progress(); (1, s >> 8, o as u64) }, None => (0, 0, 0) };
  let p = mem_ptr(core);
  let was = rec_pause();
  let stat = memory_read_byte(p, 0xff41);
  let lyc = memory_read_byte(p, 0xff45);
  let p1 = memory_read_byte(p, 0xff00);
  rec_resume(was);
  json!({"af": af, "bc": bc, "de": de, "hl": hl, "sp": sp, "pc": ip, "pend": cyc,
         "ime": ime_name(&core.interrupts_enabled), "run": run_name(&core.run_state),
         "iflag": core.memory.io.interrupt_flag.as_u8(), "ie": core.memory.io.interrupt_mask,
         "div": core.memory.io.timer.verif_get_cycle_count(), "tima": core.memory.io.timer.get_counter(),
         "tma": core.memory.io.timer.get_modulo(), "tac": core.memory.io.timer.get_timer_control(),
         "q": lcd_q(core), "lyc": lyc, "en": stat & 0x78, "dact": dact, "dpage": dpage, "doff": doff,
         "p1": p1 & 0x3f, "jpend": core.memory.io.joypad.verif_pending() >> 4})
}

pub fn button(i: u64) -> crate::devices::joypad::Button {
  use crate::devices::joypad::Button;
  match i { 0 => Button::A, 1 => Button::B, 2 => Button::Select, 3 => Button::Start,
            4 => Button::Right, 5 => Button::Left, 6 => Button::Up, _ => Button::Down }
}

/// Run one scenario, appending trace records to `out`. Returns false if the core panicked.
pub fn run_scenario(sc: &Value, out: &mut Vec<u8>, cap: &mut Capture, cold_cache: bool) -> bool {
  let mut core = build_core(sc);
  let mode = sc["mode"].as_str().unwrap_or("update").to_string();
  writeln!(out, "{}", json!({"ev": "init", "id": sc["id"], "cart": sc["cart"], "romfill": sc["romfill"], "rom": sc["rom"],
                             "cpu": sc["cpu"], "ime": sc["ime"].as_str().unwrap_or("Disabled"), "jit": cfg!(feature = "jit"), "mode": mode})).unwrap();
  let p = mem_ptr(&mut core);
  if let Some(ws) = sc["init_writes"].as_array() {
    for w in ws {
      memory_write_byte(p, ju(&w[0]) as u16, ju(&w[1]) as u8);
      writeln!(out, "{}", json!({"ev": "bw", "a": w[0], "v": w[1], "o": project(&mut core)})).unwrap();
    }
  }
  let _ = cap.take();
  let steps = ju(&sc["steps"]) as usize;
  let ext: Vec<Value> = sc["ext"].as_array().cloned().unwrap_or_default();
  let mut ok = true;
  let dump_frames = sc["dump_frames"].as_bool().unwrap_or(false);
  let mut frame_q = lcd_q(&core);
  for k in 0..steps {
    for e in ext.iter().filter(|e| ju(&e[0]) as usize == k) {
      let b = ju(&e[2]);
      if e[1] == "press" { core.memory.io.joypad.press_button(button(b)); } else { core.memory.io.joypad.release_button(button(b)); }
      writeln!(out, "{}", json!({"ev": e[1], "b": b, "o": project(&mut core)})).unwrap();
    }
    let running = core.run_state == RunState::Run;
    let kind = if !running { "halt" } else if mode == "block" || cfg!(feature = "jit") { "block" } else { "instr" };
    if cold_cache { core.cache = CodeCache::new(); }
    let pc0 = core.registers.ip;
    let rb0 = core.memory.get_rom_bank();
    let c0 = clocks();
    unsafe { crate::mem::verif::CPU[0] = u64::MAX; }
    rec_start();
    let res = std::panic::catch_unwind(std::panic::AssertUnwindSafe(|| {
      if running && mode == "block" { core.run_code_block(); } else { core.update(); }
    }));
    let log = rec_stop();
    let c1 = clocks();
    let serial = cap.take();
    if res.is_err() {
      writeln!(out, "{}", json!({"ev": "panic", "k": kind, "step": k})).unwrap();
      ok = false;
      break;
    }
    let wr: Vec<Value> = writes_only(&log).iter().map(|w| json!([w.0, w.1])).collect();
    let cpu = unsafe { if crate::mem::verif::CPU[0] == u64::MAX { 0 } else { crate::mem::verif::CPU[0] } };
    let hashes = if sc["hash"].as_bool().unwrap_or(false) { json!({"fb": hash_bytes(&[&core.get_screen_buffer()[..]]),
      "mem": hash_bytes(&[&core.memory.video_ram[..], &core.memory.cart_ram[..], &core.memory.work_ram[..], &core.memory.oam_ram[..], &core.memory.high_ram[..]])}) } else { json!(0) };
    writeln!(out, "{}", json!({"ev": "step", "k": kind, "o": project(&mut core), "wr": wr, "out": serial, "h": hashes,
      "clk": [c1[0] - c0[0], c1[1] - c0[1], c1[2] - c0[2]], "cpu": cpu, "pc0": pc0, "rb0": rb0, "cold": cold_cache})).unwrap();
    if dump_frames {
      // the frame the PPU hands over each time the LCD enters line 144
      let qn = lcd_q(&core);
      if frame_q < 144 * 456 && qn >= 144 * 456 {
        writeln!(out, "{}", json!({"ev": "framebuf", "fb": core.get_screen_buffer().to_vec()})).unwrap();
      }
      frame_q = qn;
    }
  }
  // stepping to the next frame (C09): elapsed device clocks, largest single step, LCD position
  let frames = sc["frames"].as_u64().unwrap_or(0);
  for _ in 0..frames {
    if !ok { break; }
    let c0 = clocks();
    let q0 = lcd_q(&core);
    let pend0 = core.registers.cycles;
    unsafe { crate::mem::verif::CPU[1] = 0; }
    let res = std::panic::catch_unwind(std::panic::AssertUnwindSafe(|| { core.run_frame(); }));
    let c1 = clocks();
    let _ = cap.take();
    if res.is_err() { writeln!(out, "{}", json!({"ev": "panic", "k": "frame", "step": 0})).unwrap(); ok = false; break; }
    let maxstep = unsafe { crate::mem::verif::CPU[1] };
    writeln!(out, "{}", json!({"ev": "frame", "o": project(&mut core), "q0": q0, "q1": lcd_q(&core), "pend0": pend0,
      "clk": [c1[0] - c0[0], c1[1] - c0[1], c1[2] - c0[2]], "maxstep": maxstep, "mode": core.memory.io.video.get_current_mode()})).unwrap();
  }
  ok
}

pub fn run(args: &[String]) {
  let scen = read_ndjson(&arg_value(args, "--scenarios").expect("--scenarios"));
  let outp = arg_value(args, "--out").expect("--out");
  let cold = args.iter().any(|a| a == "--cold-cache");
  silence_panics();
  let capfile = format!("{}.stdout", outp);
  // every scenario runs in a forked worker: a panic inside the extern "sysv64" bus helpers or a
  // fault in translated code kills the worker, not the recorder
  let res = run_isolated(scen.len(), |i, out| {
    let mut cap = Capture::start(&capfile);
    run_scenario(&scen[i], out, &mut cap, cold);
  });
  let mut f = std::io::BufWriter::new(std::fs::File::create(&outp).unwrap());
  for l in &res.lines { writeln!(f, "{}", l).unwrap(); }
  for (i, st) in &res.crashes {
    writeln!(f, "{}", json!({"ev": "crash", "id": scen[*i]["id"], "status": describe_status(*st)})).unwrap();
  }
  let panics = res.lines.iter().filter(|l| l.contains("\"ev\":\"panic\"")).count();
  eprintln!("{}", json!({"kind": "summary", "scenarios": scen.len(), "panics": panics, "crashes": res.crashes.len(), "truncated": res.truncated}));
}

/// C03 / C18 under cache pressure: a program made of tens of thousands of distinct blocks across
/// many ROM banks (chains of JP instructions), run block by block in an isolated worker.
/// Reports how far it got, the arena use, what appeared on stdout and whether the worker died.
pub fn cache_pressure(args: &[String]) {
  let banks = arg_usize(args, "--banks", 64);
  let steps = arg_usize(args, "--steps", 400000);
  let capfile = arg_value(args, "--capture").expect("--capture");
  silence_panics();
  unsafe { crate::util::CASE_TIMEOUT_S = 3000; }
  let res = run_isolated_max(1, 1, |_, out| {
    let mut cap = Capture::start(&capfile);
    // MBC3 with 128 banks; bank b (1..banks) holds a chain of JPs from 0x4000 upwards, the last one
    // jumps to a trampoline in bank 0 that maps bank b + 1 and jumps to 0x4000
    let mut core = new_core(0x11, 128, 0);
    // every block: LD A,<bank> ; LD B,(HL) ; JP next  (6 source bytes, a memory-read call in the translation): a block
    // identifies the bank it was translated from, so that after each step the recorder can tell whether the code that
    // ran is the code mapped there now (the chain goes round the banks again and again)
    let per_bank = 2700usize;
    core.registers.hl = 0xc000;
    for b in 1..=banks {
      let base = b * 0x4000;
      for i in 0..per_bank {
        let a = 0x4000 + 6 * i;
        let next = if i + 1 < per_bank { a + 6 } else { 0x0200 + 16 * b };
        let code = [0x3e, b as u8, 0x46, 0xc3, next as u8, (next >> 8) as u8];
        for (k, x) in code.iter().enumerate() { core.memory.rom[base + 6 * i + k] = *x; }
      }
      let t = 0x0200 + 16 * b;
      let nb = if b < banks { b + 1 } else { 1 };
      let code = [0x3e, nb as u8, 0xea, 0x00, 0x20, 0xc3, 0x00, 0x40];
      for (i, x) in code.iter().enumerate() { core.memory.rom[t + i] = *x; }
    }
    core.memory.rom[0x100] = 0xc3; core.memory.rom[0x101] = 0x00; core.memory.rom[0x102] = 0x40;
    core.registers.ip = 0x100; core.registers.sp = 0xfffe;
    let mut done = 0usize;
    let mut lastline = String::new();
    for k in 0..steps {
      if k % 2000 == 0 {
        let (cursor, capacity, _, _) = core.cache.verif_snapshot();
        lastline = json!({"kind": "progress", "steps": k, "cursor": cursor, "capacity": capacity, "pc": core.registers.ip as u32}).to_string();
        out.extend_from_slice(lastline.as_bytes()); out.push(b'\n');
        out.extend_from_slice(format!("#D {}\n", 0).as_bytes());
      }
      let pc0 = core.registers.ip as usize;
      let bank0 = core.memory.get_rom_bank();
      core.update();
      done = k + 1;
      if pc0 >= 0x4000 && pc0 < 0x8000 && (core.registers.af >> 8) as usize != bank0 {
        let line = json!({"kind": "wrong-bank-code", "step": k, "pc": pc0, "mapped_bank": bank0, "code_of_bank": core.registers.af >> 8});
        out.extend_from_slice(line.to_string().as_bytes()); out.push(b'\n');
        break;
      }
    }
    let printed = cap.take();
    let (cursor, capacity, _, _) = core.cache.verif_snapshot();
    let line = json!({"kind": "finished", "steps": done, "cursor": cursor, "capacity": capacity, "stdout_bytes": printed.len(),
                      "stdout_head": String::from_utf8_lossy(&printed[..printed.len().min(120)])});
    out.extend_from_slice(line.to_string().as_bytes()); out.push(b'\n');
  });
  for l in &res.lines { println!("{}", l); }
  let printed = std::fs::read(&capfile).unwrap_or_default();
  for (_, st) in &res.crashes {
    println!("{}", json!({"kind": "crash", "status": describe_status(*st), "stdout_bytes": printed.len(),
                          "stdout_head": String::from_utf8_lossy(&printed[..printed.len().min(120)])}));
  }
  println!("{}", json!({"kind": "summary", "crashes": res.crashes.len()}));
}
