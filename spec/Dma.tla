--------------------------------- MODULE Dma ---------------------------------
(***************************************************************************)
(* OAM DMA (C16).  A write of XX to 0xFF46 starts (or restarts) a transfer *)
(* of `len' bytes (160 on the machine) from XX00.. to OAM, one byte per    *)
(* machine cycle in ascending order; each byte is read from the source     *)
(* through the memory map at the time it is copied.                        *)
(*                                                                         *)
(* d = [active : BOOLEAN, page : 0..255, off : 0..len]                     *)
(* The source is supplied by the caller as a function src[i] = the byte    *)
(* the memory map shows at XX00+i at the time of the step (nothing else    *)
(* runs inside a catch-up batch, so one snapshot per batch is exact).      *)
(*                                                                         *)
(* Deviations of the emulator, modelled as intended: Dev_NoDmaDelay (the   *)
(* first byte is copied in the first machine cycle after the write),       *)
(* Dev_NoDmaLock (the CPU's bus accesses are not restricted meanwhile).    *)
(***************************************************************************)
EXTENDS Bits, Sequences

Idle == [active |-> FALSE, page |-> 0, off |-> 0]
Start(page) == [active |-> TRUE, page |-> page, off |-> 0]

\* number of bytes copied by k machine cycles
Count(d, k, len) == IF d.active THEN Min(len - d.off, k) ELSE 0

\* oam: function 0..len-1 -> byte ; src: function 0..len-1 -> byte
Run(d, oam, src, k, len) ==
  LET c == Count(d, k, len)
      o1 == [i \in DOMAIN oam |-> IF d.active /\ i >= d.off /\ i < d.off + c THEN src[i] ELSE oam[i]]
      off1 == d.off + c
  IN [d |-> IF d.active /\ off1 < len THEN [d EXCEPT !.off = off1] ELSE Idle, oam |-> o1]
=============================================================================
