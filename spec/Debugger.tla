------------------------------- MODULE Debugger -------------------------------
(***************************************************************************)
(* The debugger's command parser and the disassembler's tiling (C20).      *)
(* An input line is a sequence of Unicode code points.                     *)
(*                                                                         *)
(* Results: <<"none">>, <<"continue">>, <<"step">>, <<"regs">>,            *)
(*          <<"break", addr>>, <<"mem", addr>>.                            *)
(* Allowed(line) is the set of results the statement permits; it is a      *)
(* singleton except where the statement is silent:                         *)
(*   - a number written with a leading '+' or with the prefix "0X";        *)
(*   - tokens after a complete command;                                    *)
(*   - a command word containing non-ASCII code points (only totality).    *)
(***************************************************************************)
EXTENDS Integers, Sequences, FiniteSets

WhiteSpace == {9, 10, 11, 12, 13, 32, 133, 160, 5760, 8232, 8233, 8239, 8287, 12288} \cup (8192..8202)
IsDigit(c) == c >= 48 /\ c <= 57
IsHex(c) == IsDigit(c) \/ (c >= 65 /\ c <= 70) \/ (c >= 97 /\ c <= 102)
HexVal(c) == IF IsDigit(c) THEN c - 48 ELSE IF c >= 97 THEN c - 87 ELSE c - 55
Lower(c) == IF c >= 65 /\ c <= 90 THEN c + 32 ELSE c
IsAscii(tok) == \A i \in 1..Len(tok) : tok[i] < 128

\* tokens: maximal runs of non-whitespace code points
RECURSIVE Split(_, _, _)
Split(line, i, cur) ==
  IF i > Len(line) THEN (IF cur = << >> THEN << >> ELSE <<cur>>)
  ELSE IF line[i] \in WhiteSpace THEN (IF cur = << >> THEN Split(line, i + 1, << >>) ELSE <<cur>> \o Split(line, i + 1, << >>))
  ELSE Split(line, i + 1, Append(cur, line[i]))
Tokens(line) == Split(line, 1, << >>)

\* value of a digit string in a base, capped so that TLC's integers never overflow
RECURSIVE Value(_, _, _, _)
Value(tok, i, base, acc) ==
  IF i > Len(tok) THEN acc
  ELSE Value(tok, i + 1, base, IF acc > 65535 THEN 65536 ELSE acc * base + HexVal(tok[i]))

NoResult == <<"none">>
\* the set of addresses a token may denote: {v} for a well-formed number in range, {} for anything malformed or
\* out of range, and either for the notations the statement does not mention
RECURSIVE TrimL(_)
TrimL(t) == IF t # << >> /\ t[1] \in WhiteSpace THEN TrimL(SubSeq(t, 2, Len(t))) ELSE t
RECURSIVE TrimR(_)
TrimR(t) == IF t # << >> /\ t[Len(t)] \in WhiteSpace THEN TrimR(SubSeq(t, 1, Len(t) - 1)) ELSE t
\* surrounding whitespace is not part of the number
Addresses(token) ==
  LET tok == TrimR(TrimL(token))
      hexPrefix == Len(tok) >= 2 /\ tok[1] = 48 /\ tok[2] = 120          \* "0x"
      hexPrefixUpper == Len(tok) >= 2 /\ tok[1] = 48 /\ tok[2] = 88      \* "0X"
      body == IF hexPrefix \/ hexPrefixUpper THEN SubSeq(tok, 3, Len(tok)) ELSE tok
      plus == Len(body) >= 1 /\ body[1] = 43                              \* leading '+'
      digits == IF plus THEN SubSeq(body, 2, Len(body)) ELSE body
      isHex == hexPrefix \/ hexPrefixUpper
      wellFormed == Len(digits) >= 1 /\ (\A i \in 1..Len(digits) : IF isHex THEN IsHex(digits[i]) ELSE IsDigit(digits[i]))
      v == Value(digits, 1, IF isHex THEN 16 ELSE 10, 0)
      strict == IF wellFormed /\ v <= 65535 THEN {v} ELSE {}
  IN [must |-> IF plus \/ hexPrefixUpper THEN {} ELSE strict,      \* results that are required ...
      may  |-> strict,                                              \* ... and results that are permitted
      silent |-> plus \/ hexPrefixUpper]

Word(tok) == [i \in 1..Len(tok) |-> Lower(tok[i])]
W(s) == s       \* words are written as code-point tuples below
BREAK == <<98, 114, 101, 97, 107>>
C_ == <<99>>
CONTINUE == <<99, 111, 110, 116, 105, 110, 117, 101>>
INFO == <<105, 110, 102, 111>>
REG == <<114, 101, 103>>
REGISTERS == <<114, 101, 103, 105, 115, 116, 101, 114, 115>>
P_ == <<112>>
PRINT == <<112, 114, 105, 110, 116>>
S_ == <<115>>
STEP == <<115, 116, 101, 112>>

AllResults == {NoResult, <<"continue">>, <<"step">>, <<"regs">>} \cup {<<"break", a>> : a \in 0..65535} \cup {<<"mem", a>> : a \in 0..65535}

\* results permitted for a line (membership is what the validator evaluates; the set is never enumerated)
Permits(line, res) ==
  LET toks == Tokens(line) IN
  IF toks = << >> THEN res = NoResult
  ELSE IF ~IsAscii(toks[1]) THEN TRUE                                  \* only totality is required
  ELSE LET w == Word(toks[1])
           extra(n) == Len(toks) > n
           WithAddr(kind) ==
             IF Len(toks) < 2 THEN res = NoResult
             ELSE LET a == Addresses(toks[2]) IN
                  \/ (res = NoResult /\ (a.must = {} \/ extra(2)))
                  \/ (Len(res) = 2 /\ res[1] = kind /\ res[2] \in a.may)
           Simple(kind) == res = <<kind>> \/ (extra(1) /\ res = NoResult)
       IN CASE w = BREAK -> WithAddr("break")
            [] w = C_ \/ w = CONTINUE -> Simple("continue")
            [] w = S_ \/ w = STEP -> Simple("step")
            [] w = P_ \/ w = PRINT -> WithAddr("mem")
            [] w = INFO -> (IF Len(toks) < 2 THEN res = NoResult
                            ELSE IF ~IsAscii(toks[2]) THEN TRUE
                            ELSE IF Word(toks[2]) = REG \/ Word(toks[2]) = REGISTERS THEN (res = <<"regs">> \/ (extra(2) /\ res = NoResult))
                            ELSE res = NoResult)
            [] OTHER -> res = NoResult

(* ---- disassembly tiles the byte sequence with the decoder's lengths ---------- *)
\* ins: sequence of <<address, length>>; bytes: the disassembled bytes; LenOf(b0): encoded length of opcode b0
Tiles(addr, bytes, ins, LenOf(_)) ==
  LET RECURSIVE Walk(_, _, _)
      Walk(i, cursor, a) ==
        IF i > Len(ins) THEN cursor = Len(bytes) + 1
        ELSE /\ cursor <= Len(bytes)
             /\ ins[i][1] = a
             /\ ins[i][2] = LenOf(bytes[cursor])
             /\ cursor + ins[i][2] - 1 <= Len(bytes)
             /\ Walk(i + 1, cursor + ins[i][2], (a + ins[i][2]) % 65536)
  IN Walk(1, 1, addr)
=============================================================================
