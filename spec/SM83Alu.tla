------------------------------- MODULE SM83Alu -------------------------------
(***************************************************************************)
(* Data semantics of the SM83 (Game Boy CPU) instruction set, written from *)
(* the instruction-set definition: every operator maps operand values and  *)
(* the incoming flag byte F to a result and the outgoing flag byte.        *)
(*                                                                         *)
(* F layout: Z = 0x80, N = 0x40, H = 0x20, C = 0x10, low nibble always 0.  *)
(***************************************************************************)
EXTENDS Bits

FZ == 128
FN == 64
FH == 32
FC == 16

Zf(f) == Bit(f, 7)
Nf(f) == Bit(f, 6)
Hf(f) == Bit(f, 5)
Cf(f) == Bit(f, 4)

Flags(z, n, h, c) == 128 * z + 64 * n + 32 * h + 16 * c
Res(r, f) == [r |-> r, f |-> f]

(* ---- 8-bit binary operations on the accumulator ---------------------- *)
Add8(a, b, cin) ==
  LET s == a + b + cin
      r == s % 256
  IN Res(r, Flags(B2N(r = 0), 0, B2N(Nib(a) + Nib(b) + cin > 15), B2N(s > 255)))

Sub8(a, b, cin) ==
  LET r == (a - b - cin) % 256
  IN Res(r, Flags(B2N(r = 0), 1, B2N(Nib(a) < Nib(b) + cin), B2N(a < b + cin)))

\* fn: 0 ADD, 1 ADC, 2 SUB, 3 SBC, 4 AND, 5 XOR, 6 OR, 7 CP  (the encoding order of the ISA)
AluBin(fn, a, b, f) ==
  CASE fn = 0 -> Add8(a, b, 0)
    [] fn = 1 -> Add8(a, b, Cf(f))
    [] fn = 2 -> Sub8(a, b, 0)
    [] fn = 3 -> Sub8(a, b, Cf(f))
    [] fn = 4 -> LET r == a & b IN Res(r, Flags(B2N(r = 0), 0, 1, 0))
    [] fn = 5 -> LET r == a ^^ b IN Res(r, Flags(B2N(r = 0), 0, 0, 0))
    [] fn = 6 -> LET r == a | b IN Res(r, Flags(B2N(r = 0), 0, 0, 0))
    [] fn = 7 -> Res(a, Sub8(a, b, 0).f)

(* ---- 8-bit unary operations ------------------------------------------ *)
Inc8(a, f) == LET r == (a + 1) % 256 IN Res(r, Flags(B2N(r = 0), 0, B2N(Nib(a) = 15), Cf(f)))
Dec8(a, f) == LET r == (a - 1) % 256 IN Res(r, Flags(B2N(r = 0), 1, B2N(Nib(a) = 0), Cf(f)))

\* rotates and shifts; rk: 0 RLC, 1 RRC, 2 RL, 3 RR, 4 SLA, 5 SRA, 6 SWAP, 7 SRL (CB encoding order)
RotVal(rk, a, f) ==
  CASE rk = 0 -> [r |-> ((a * 2) % 256) + (a \div 128), c |-> a \div 128]
    [] rk = 1 -> [r |-> a \div 2 + 128 * (a % 2),   c |-> a % 2]
    [] rk = 2 -> [r |-> ((a * 2) % 256) + Cf(f),    c |-> a \div 128]
    [] rk = 3 -> [r |-> a \div 2 + 128 * Cf(f),     c |-> a % 2]
    [] rk = 4 -> [r |-> (a * 2) % 256,              c |-> a \div 128]
    [] rk = 5 -> [r |-> a \div 2 + 128 * (a \div 128), c |-> a % 2]
    [] rk = 6 -> [r |-> Nib(a) * 16 + a \div 16,    c |-> 0]
    [] rk = 7 -> [r |-> a \div 2,                   c |-> a % 2]

\* CB-prefixed form: Z reflects the result
RotCB(rk, a, f) == LET v == RotVal(rk, a, f) IN Res(v.r, Flags(B2N(v.r = 0), 0, 0, v.c))
\* accumulator forms RLCA/RRCA/RLA/RRA (rk 0..3): Z is always cleared
RotA(rk, a, f)  == LET v == RotVal(rk, a, f) IN Res(v.r, Flags(0, 0, 0, v.c))

BitTest(n, a, f) == Res(a, Flags(B2N(Bit(a, n) = 0), 0, 1, Cf(f)))
BitRes(n, a, f)  == Res(ClearBit(a, n), f)
BitSet(n, a, f)  == Res(SetBit(a, n), f)

Daa(a, f) ==
  IF Nf(f) = 0
  THEN LET lowAdj  == IF Hf(f) = 1 \/ Nib(a) > 9 THEN 6 ELSE 0
           highAdj == IF Cf(f) = 1 \/ a > 153 THEN 96 ELSE 0
           r == (a + lowAdj + highAdj) % 256
       IN Res(r, Flags(B2N(r = 0), 0, 0, B2N(highAdj # 0)))
  ELSE LET adj == (IF Hf(f) = 1 THEN 6 ELSE 0) + (IF Cf(f) = 1 THEN 96 ELSE 0)
           r == (a - adj) % 256
       IN Res(r, Flags(B2N(r = 0), 1, 0, Cf(f)))

Cpl(a, f) == Res(255 - a, Flags(Zf(f), 1, 1, Cf(f)))
Scf(a, f) == Res(a, Flags(Zf(f), 0, 0, 1))
Ccf(a, f) == Res(a, Flags(Zf(f), 0, 0, 1 - Cf(f)))

\* the eight accumulator/flag instructions 0x07,0x0F,...,0x3F in encoding order
AccOp(y, a, f) ==
  CASE y \in 0..3 -> RotA(y, a, f)
    [] y = 4 -> Daa(a, f)
    [] y = 5 -> Cpl(a, f)
    [] y = 6 -> Scf(a, f)
    [] y = 7 -> Ccf(a, f)

(* ---- 16-bit operations ------------------------------------------------ *)
AddHL(hl, rr, f) ==
  LET s == hl + rr
  IN Res(s % 65536, Flags(Zf(f), 0, B2N((hl % 4096) + (rr % 4096) > 4095), B2N(s > 65535)))

\* ADD SP,e8 and LD HL,SP+e8: e is the raw displacement byte
AddSPe(sp, e, f) ==
  Res((sp + Sx8(e)) % 65536, Flags(0, 0, B2N(Nib(sp) + Nib(e) > 15), B2N((sp % 256) + e > 255)))

Inc16(w) == (w + 1) % 65536
Dec16(w) == (w - 1) % 65536

\* POP AF keeps only the architected flag bits
MaskF(b) == b - Nib(b)
=============================================================================
