SPECIFICATION Spec
CONSTANTS
  Alphabet = {112, 80, 99, 32, 160, 48, 120, 49, 70, 43, 233}
  MaxLen = 4
INVARIANT Total
INVARIANT Deterministic
INVARIANT SpaceInsensitive
CHECK_DEADLOCK FALSE
