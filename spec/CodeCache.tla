------------------------------ MODULE CodeCache ------------------------------
(***************************************************************************)
(* The translation cache and its transparency across ROM bank switches     *)
(* (C03).  Abstract view: the ROM is Rom[bank][addr] = an opaque code id;  *)
(* bank 0 is fixed at the low addresses, the guest selects which bank is   *)
(* visible at the high addresses.  The cache maps (tag, address) to the    *)
(* code id that was translated; `tag' is the cache's idea of the bank      *)
(* mapped at the high addresses.                                           *)
(*                                                                         *)
(* Actions (one per step of the code):                                     *)
(*   WriteBank(b)   guest write to the bank register (cartridge state)     *)
(*   Run(a)         Core::run_code_block at pc = a: SyncTag, then Lookup,  *)
(*                  on a miss Translate (reads the bank mapped now and     *)
(*                  consumes arena space), then execute the cached code    *)
(* Block shapes beyond "a block lies in one bank and does not switch":     *)
(*   Straddle       a block starting at a low address that runs into the   *)
(*                  switchable bank (cached under the fixed low tag)       *)
(*   SelfSwitch     a block in the switchable bank that rewrites the bank  *)
(*                  register and continues                                 *)
(* Code-shaped variants are kept behind constants so that TLC can exhibit  *)
(* the design-level counterexample: Bug_NoTagSync (the tag is never        *)
(* synchronised), WithStraddle / WithSelfSwitch (shapes the translator     *)
(* does not handle).  The registered checks run with the bug constant off. *)
(***************************************************************************)
EXTENDS Naturals, FiniteSets, TLC

CONSTANTS Banks,          \* switchable bank numbers, e.g. 1..3
          LoAddrs, HiAddrs,
          Capacity,       \* arena capacity in translated blocks
          Bug_NoTagSync, WithStraddle, WithSelfSwitch

VARIABLES bank,      \* bank mapped at the high addresses (cartridge register, reduced)
          tag,       \* CacheRegion.current_bank of the high region
          cache,     \* set of [tag, addr, code]: code = what was translated
          cursor,    \* arena space used
          ran,       \* observation: code id executed by the last Run
          want,      \* observation: code id mapped at that address when it ran
          failed     \* the arena was exhausted
vars == <<bank, tag, cache, cursor, ran, want, failed>>

\* code id of the block at address a when bank b is mapped; blocks in different banks differ
CodeAt(b, a) == IF a \in LoAddrs THEN <<"block", 0, a>> ELSE <<"block", b, a>>
\* a straddling block starts low but contains bytes of the mapped bank
StraddleCode(b, a) == <<"straddle", b, a>>

Init == bank = 1 /\ tag = 1 /\ cache = {} /\ cursor = 0 /\ ran = <<"none", 0, 0>> /\ want = <<"none", 0, 0>> /\ failed = FALSE

WriteBank(b) == /\ ~failed /\ bank' = b /\ UNCHANGED <<tag, cache, cursor, ran, want, failed>>

KeyTag(a, t) == IF a \in LoAddrs THEN 0 ELSE t
Entry(a, t) == {e \in cache : e.tag = KeyTag(a, t) /\ e.addr = a}

RunWith(a, code) ==
  LET t == IF Bug_NoTagSync THEN tag ELSE bank IN       \* SyncTag
  /\ ~failed /\ tag' = t
  /\ want' = code
  /\ IF Entry(a, t) # {}
     THEN /\ ran' = (CHOOSE e \in Entry(a, t) : TRUE).code                 \* Lookup hit
          /\ UNCHANGED <<cache, cursor, failed, bank>>
     ELSE IF cursor < Capacity
     THEN /\ cache' = cache \cup {[tag |-> KeyTag(a, t), addr |-> a, code |-> code]}   \* Translate
          /\ cursor' = cursor + 1 /\ ran' = code /\ UNCHANGED <<failed, bank>>
     ELSE /\ failed' = TRUE /\ ran' = code /\ UNCHANGED <<cache, cursor, bank>>         \* arena exhausted

Run(a) == RunWith(a, CodeAt(bank, a))
\* a block that starts at a low address and runs into the switchable bank
Straddle(a) == WithStraddle /\ a \in LoAddrs /\ RunWith(a, StraddleCode(bank, a))
\* a block in the switchable bank that switches the bank and keeps going: the rest of what executes
\* must come from the new bank; the translation was made from the old one
SelfSwitch(a, b) ==
  /\ WithSelfSwitch /\ a \in HiAddrs /\ b # bank /\ ~failed
  /\ want' = <<"tail-of", b, a>> /\ ran' = <<"tail-of", bank, a>>
  /\ bank' = b /\ UNCHANGED <<tag, cache, cursor, failed>>

Next == \/ \E b \in Banks : WriteBank(b)
        \/ \E a \in LoAddrs \cup HiAddrs : Run(a)
        \/ \E a \in LoAddrs : Straddle(a)
        \/ \E a \in HiAddrs, b \in Banks : SelfSwitch(a, b)
Spec == Init /\ [][Next]_vars

TypeOK == bank \in Banks /\ tag \in Banks /\ cursor \in 0..Capacity /\ failed \in BOOLEAN
\* the code executed for the current program counter is a translation of what is mapped there now
Transparent == ran = want
\* cache entries never lie about their origin: an entry under tag t holds bank t's code
EntriesTruthful == \A e \in cache : e.code = CodeAt(e.tag, e.addr) \/ (e.code[1] = "straddle")
\* warm = cold: with an empty cache the same Run executes the same code
ColdEquivalent == \A e \in cache : (e.tag = KeyTag(e.addr, bank) /\ e.code[1] # "straddle") => e.code = CodeAt(bank, e.addr)
NeverExhausted == ~failed
=============================================================================
