------------------------------ MODULE MC_Timer ------------------------------
(***************************************************************************)
(* Behaviour specification of the timer for model checking (C13): all      *)
(* interleavings of register writes and elapsed-time batches up to a       *)
(* bounded number of steps, from several divider phases.                   *)
(*                                                                         *)
(* History variables: `since' = clocks elapsed since DIV was last written  *)
(* (mod 2^16), `fine' = the same history replayed one clock at a time      *)
(* (the per-clock machine run in lock-step with the batched one).          *)
(***************************************************************************)
EXTENDS Timer, TLC

CONSTANTS Batches, TacVals, ByteVals, StartPhases, MaxSteps

VARIABLES t, since, fine, irqs, fineIrqs, steps

vars == <<t, since, fine, irqs, fineIrqs, steps>>

Init == /\ \E d \in StartPhases : t = [PowerOn EXCEPT !.div = d] /\ since = d
        /\ fine = t /\ irqs = 0 /\ fineIrqs = 0 /\ steps = 0

Advance(n) ==
  LET r == Run(t, n)  f == Iter(fine, n) IN
  /\ t' = r.t /\ fine' = f.t
  /\ since' = (since + n) % 65536
  /\ irqs' = irqs + B2N(r.irq) /\ fineIrqs' = fineIrqs + B2N(f.irq)

WrTAC(v) ==
  LET r == WriteTAC(t, v)  f == WriteTAC(fine, v) IN
  /\ t' = r.t /\ fine' = f.t /\ UNCHANGED since
  /\ irqs' = irqs + B2N(r.irq) /\ fineIrqs' = fineIrqs + B2N(f.irq)

WrTIMA(v) == t' = WriteTIMA(t, v) /\ fine' = WriteTIMA(fine, v) /\ UNCHANGED <<since, irqs, fineIrqs>>
WrTMA(v)  == t' = WriteTMA(t, v) /\ fine' = WriteTMA(fine, v) /\ UNCHANGED <<since, irqs, fineIrqs>>
\* the same choice is made in both machines (the choice is the emulator's, not the schedule's)
WrDIV == \E r \in WriteDIVResults(t) :
           /\ t' = r.t /\ fine' = [r.t EXCEPT !.tima = IF r.t.tima = [t EXCEPT !.div = 0].tima THEN fine.tima ELSE Inc([fine EXCEPT !.div = 0]).t.tima]
           /\ since' = 0 /\ irqs' = irqs + B2N(r.irq) /\ fineIrqs' = fineIrqs + B2N(r.irq)

Bound == steps < MaxSteps /\ steps' = steps + 1
DoAdvance == Bound /\ \E n \in Batches : Advance(n)
DoWrTAC   == Bound /\ \E v \in TacVals : WrTAC(v)
DoWrTIMA  == Bound /\ \E v \in ByteVals : WrTIMA(v)
DoWrTMA   == Bound /\ \E v \in ByteVals : WrTMA(v)
DoWrDIV   == Bound /\ WrDIV
Next == DoAdvance \/ DoWrTAC \/ DoWrTIMA \/ DoWrTMA \/ DoWrDIV

Spec == Init /\ [][Next]_vars

TypeOK == t.div \in 0..65535 /\ t.tima \in 0..255 /\ t.tma \in 0..255 /\ t.tac \in 0..255

\* DIV = bits 8-15 of the clocks elapsed since it was last written
DivLaw == ReadDIV(t) = (since \div 256) % 256

\* the batched machine and the per-clock machine agree whatever the batching
BatchingIndependent == t = fine /\ irqs = fineIrqs

\* TIMA changes only while enabled (or by a write)
DisabledFrozen == [][(~Enabled(t.tac) /\ \E n \in Batches : Advance(n)) => t'.tima = t.tima]_vars
=============================================================================
