//! C14: records LCD schedule histories from the real VideoState (directly and
//! through MemoryAreas::run_clock_cycles into IF) for Trace_Lcd.tla.
use crate::emulator::Core;
use crate::mem::{memory_read_byte, memory_write_byte};
use crate::timing::ClockCycles;
use crate::util::*;
use crate::world::*;
use serde_json::json;
use std::io::Write;

fn emit(out: &mut Vec<u8>, core: &mut Core, ev: &str, arg: u64, irq: u8) {
  let p = mem_ptr(core);
  let ly = memory_read_byte(p, 0xff44);
  let stat = memory_read_byte(p, 0xff41);
  writeln!(out, "{}", json!({"ev": ev, "arg": arg, "ly": ly, "stat": stat, "vb": irq & 1, "st": irq >> 1 & 1})).unwrap();
}

/// frame position q -> the code's (line, mode, dots)
pub fn set_q(core: &mut Core, q: u32) {
  let line = q / 456; let x = q % 456;
  let (mode, dots) = if line >= 144 { (1, x) } else if x < 80 { (2, x) } else if x < 268 { (3, x - 80) } else { (0, x - 268) };
  core.memory.io.video.verif_set_position(line as u8, mode as u8, dots as usize);
}

fn advance(core: &mut Core, n: usize, via_bus: bool) -> u8 {
  if via_bus {
    let p = mem_ptr(core);
    memory_write_byte(p, 0xff0f, 0);
    core.memory.run_clock_cycles(ClockCycles(n));
    core.memory.io.interrupt_flag.as_u8() & 3
  } else {
    let m = &mut core.memory;
    m.io.video.run_clock_cycles(ClockCycles(n), &m.video_ram, &m.oam_ram).as_u8() & 3
  }
}

fn write_reg(core: &mut Core, addr: u16, v: u8) -> u8 {
  let p = mem_ptr(core);
  memory_write_byte(p, 0xff0f, 0);
  memory_write_byte(p, addr, v);
  core.memory.io.interrupt_flag.as_u8() & 3
}

const BATCHES: [usize; 18] = [4, 8, 12, 76, 80, 84, 188, 192, 268, 376, 452, 456, 460, 912, 4560, 20000, 65664, 70224];

pub fn trace(args: &[String]) {
  let n = arg_usize(args, "--events", 20000);
  let mode = arg_value(args, "--mode").unwrap_or("random".into());
  let mut rng = Rng::new(seed_from_env() ^ 0x14);
  let mut out: Vec<u8> = Vec::new();
  let mut core = plain_core();
  let mut count = 0usize;
  let mut left = 0usize;
  let mut masks = 0u32;
  while count < n {
    if left == 0 {
      core = plain_core();
      emit(&mut out, &mut core, "reset", 0, 0);
      count += 1;
      if mode == "frames" {
        // all 16 enable masks x LYC set, from power-on, over > 3 frames in random partitions
        let en = ((masks % 16) << 3) as u8;
        let lyc = [0u8, 1, 143, 144, 153, 200, 77][(masks / 16 % 7) as usize];
        masks += 1;
        let i = write_reg(&mut core, 0xff41, en); emit(&mut out, &mut core, "wstat", en as u64, i);
        let i = write_reg(&mut core, 0xff45, lyc); emit(&mut out, &mut core, "wlyc", lyc as u64, i);
        let lcdc = [0x00u8, 0x91, 0x11, 0x80][(masks / 3 % 4) as usize];
        let i = write_reg(&mut core, 0xff40, lcdc); emit(&mut out, &mut core, "wlcdc", lcdc as u64, i);
        let mut total = 0usize;
        let style = rng.below(4);
        while total < 3 * 70224 + 4000 {
          let b = match style { 0 => 4 * (1 + rng.below(12) as usize), 1 => *rng.pick(&BATCHES),
                                2 => 4 * (1 + rng.below(5000) as usize), _ => 456 };
          let i = advance(&mut core, b, rng.chance(1, 3)); emit(&mut out, &mut core, "adv", b as u64, i);
          total += b; count += 1;
        }
        continue;
      }
      left = 20 + rng.below(400) as usize;
      continue;
    }
    left -= 1; count += 1;
    match rng.below(20) {
      0 => {
        // start phases set by the hook: only where the pixel pipeline is idle (mode 0 and mode 1);
        // entering a line through the hook would skip the per-line set-up the code does on mode-2 entry
        let line = if rng.chance(1, 2) { *rng.pick(&[0u32, 1, 142, 143, 144, 145, 152, 153]) } else { rng.below(154) as u32 };
        let x = if line >= 144 { 4 * rng.below(114) as u32 } else { 268 + 4 * rng.below(47) as u32 };
        let q = line * 456 + x;
        set_q(&mut core, q); emit(&mut out, &mut core, "pos", q as u64, 0);
      },
      1 | 2 => { let v = if rng.chance(1, 2) { rng.byte() } else { (rng.byte() & 0xf) << 3 };
                 let i = write_reg(&mut core, 0xff41, v); emit(&mut out, &mut core, "wstat", v as u64, i); },
      5 => { // LCDC (incl. the display-enable bit): the line/mode schedule runs whatever it holds
             let v = *rng.pick(&[0x00u8, 0x11, 0x80, 0x91, 0xff, 0x7f]);
             let i = write_reg(&mut core, 0xff40, v); emit(&mut out, &mut core, "wlcdc", v as u64, i); },
      6 => { // the other registers of the LCD page, the read-only LY among them: a write leaves the schedule alone
             let a = *rng.pick(&[0xff44u16, 0xff44, 0xff42, 0xff43, 0xff47, 0xff48, 0xff49, 0xff4a, 0xff4b]);
             let v = if rng.chance(1, 2) { rng.byte() } else { 0 };
             let i = write_reg(&mut core, a, v); emit(&mut out, &mut core, "wother", ((a as u64) << 8) | v as u64, i); },
      3 | 4 => { let v = if rng.chance(1, 4) { rng.byte() } else { *rng.pick(&[0u8, 1, 143, 144, 145, 153, 154]) };
                 let i = write_reg(&mut core, 0xff45, v); emit(&mut out, &mut core, "wlyc", v as u64, i); },
      _ => { let b = if rng.chance(2, 3) { *rng.pick(&BATCHES) } else { 4 * (1 + rng.below(5000) as usize) };
             let i = advance(&mut core, b, rng.chance(1, 3)); emit(&mut out, &mut core, "adv", b as u64, i); },
    }
  }
  std::io::stdout().write_all(&out).unwrap();
}
