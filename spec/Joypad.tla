------------------------------- MODULE Joypad -------------------------------
(***************************************************************************)
(* The joypad register P1 (0xFF00) and its interrupt request (C17).        *)
(*                                                                         *)
(* Eight buttons in two groups of four share four input lines:             *)
(*   button 0..3 = A, B, Select, Start   (action group,    line = b)       *)
(*   button 4..7 = Right, Left, Up, Down (direction group, line = b - 4)   *)
(* Writing P1 selects groups: bit 4 = 0 selects directions, bit 5 = 0      *)
(* selects actions.  A line reads 0 exactly when a pressed button of a     *)
(* selected group sits on it.  A request is latched exactly when some line *)
(* goes from 1 to 0, whatever caused it, and is reported once.             *)
(***************************************************************************)
EXTENDS Bits, FiniteSets

Buttons == 0..7
IsAction(b) == b < 4
LineOf(b)   == b % 4

\* js = [pressed : SUBSET Buttons, selDir : BOOLEAN, selAct : BOOLEAN, pending : BOOLEAN]
PowerOn == [pressed |-> {}, selDir |-> FALSE, selAct |-> FALSE, pending |-> FALSE]

Selected(js, b) == IF IsAction(b) THEN js.selAct ELSE js.selDir
LineLow(js, k)  == \E b \in js.pressed : Selected(js, b) /\ LineOf(b) = k
Lines(js)       == [k \in 0..3 |-> IF LineLow(js, k) THEN 0 ELSE 1]
LinesValue(js)  == Lines(js)[0] + 2 * Lines(js)[1] + 4 * Lines(js)[2] + 8 * Lines(js)[3]

\* value read at 0xFF00, bits 0-5 (bits 6-7 are not constrained by the property)
P1(js) == LinesValue(js) + (IF js.selDir THEN 0 ELSE 16) + (IF js.selAct THEN 0 ELSE 32)

Falls(old, new) == \E k \in 0..3 : Lines(old)[k] = 1 /\ Lines(new)[k] = 0

Step(js, new) == [new EXCEPT !.pending = js.pending \/ Falls(js, new)]

Press(js, b)   == Step(js, [js EXCEPT !.pressed = @ \cup {b}])
Release(js, b) == Step(js, [js EXCEPT !.pressed = @ \ {b}])
\* a write of v to P1: only bits 4 and 5 matter
Select(js, v)  == Step(js, [js EXCEPT !.selDir = (Bit(v, 4) = 0), !.selAct = (Bit(v, 5) = 0)])
\* the device collecting the latched request: reports it once
Collect(js)    == [out |-> js.pending, js |-> [js EXCEPT !.pending = FALSE]]

=============================================================================
