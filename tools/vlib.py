"""Shared machinery of the /verif checks: building the harness from /repo's
working tree, running TLC (model checking, constant evaluation / generators,
trace validation), known findings, evidence files and the exit protocol.

Exit protocol (see DESIGN.md section 7):
  0  property held on everything explored (KNOWN-FINDING lines allowed)
  1  a violation not listed in known_findings.json: prints
       VIOLATION property=<id> replay=<path>
  2  tool failure (cargo, TLC, time-out, vacuity) - never a verdict
"""
import json, os, re, shutil, subprocess, sys, time, hashlib, atexit, glob

VERIF = os.path.dirname(os.path.dirname(os.path.abspath(__file__)))
SPEC = os.path.join(VERIF, "spec")
HARNESS = os.path.join(VERIF, "harness")
OUT = os.path.join(VERIF, "out")
EVID = os.path.join(VERIF, "evidence")
REPLAY = os.path.join(OUT, "replay")
TLA_CP = "/opt/veriftools/tla/tla2tools.jar:/opt/veriftools/tla/CommunityModules-deps.jar"
NCPU = os.cpu_count() or 4


class ToolError(Exception):
    pass


class CodeCrash(Exception):
    """The harness process was killed by a signal while executing code under test (an abort
    from a panic inside an extern "sysv64" bus helper, a fault in translated code).
    This is an observation about /repo, not a tool failure."""
    def __init__(self, cmd, rc, stderr):
        Exception.__init__(self, "harness died rc=%s: %s" % (rc, " ".join(map(str, cmd[:6]))))
        self.cmd = [str(c) for c in cmd]
        self.rc = rc
        self.stderr = stderr[-1500:]


def seed():
    try:
        return int(os.environ.get("VERIF_SEED", "1"))
    except ValueError:
        return 1


_rundir = None


def rundir():
    global _rundir
    if _rundir is None:
        _rundir = os.path.join(OUT, "run-%d" % os.getpid())
        os.makedirs(_rundir, exist_ok=True)
        if not os.environ.get("VERIF_KEEP"):
            atexit.register(lambda: shutil.rmtree(_rundir, ignore_errors=True))
    return _rundir


def sh(cmd, cwd=None, env=None, timeout=None, input=None):
    e = dict(os.environ)
    if env:
        e.update({k: str(v) for k, v in env.items()})
    try:
        p = subprocess.run(cmd, cwd=cwd, env=e, timeout=timeout, input=input,
                           stdout=subprocess.PIPE, stderr=subprocess.PIPE, text=True, errors="replace")
    except subprocess.TimeoutExpired as ex:
        raise ToolError("timeout after %ss: %s" % (timeout, " ".join(cmd[:6])))
    return p.returncode, p.stdout, p.stderr


# ---------------------------------------------------------------- harness
_built = {}


def build_harness(jit=False):
    """Build gbv from /repo's current working tree (hooks on). Two target
    directories so that the jit and non-jit binaries coexist."""
    key = "jit" if jit else "nojit"
    if key in _built:
        return _built[key]
    tdir = os.path.join(HARNESS, "target", key)
    cmd = ["cargo", "build", "--offline", "--target-dir", tdir]
    if jit:
        cmd += ["--features", "jit"]
    env = {"CARGO_NET_OFFLINE": "true"}
    rc, out, err = sh(cmd, cwd=HARNESS, env=env, timeout=1200)
    if rc != 0:
        sys.stderr.write(err[-4000:])
        raise ToolError("cargo build of the harness failed (jit=%s)" % jit)
    path = os.path.join(tdir, "debug", "gbv")
    _built[key] = path
    return path


def build_real_binary(jit=False):
    """The repository's own binary (what main.rs decides), hooks off."""
    key = "real-jit" if jit else "real"
    if key in _built:
        return _built[key]
    tdir = os.path.join(HARNESS, "target", key)
    cmd = ["cargo", "build", "--offline", "--manifest-path", "/repo/Cargo.toml", "--target-dir", tdir]
    if jit:
        cmd += ["--features", "jit"]
    rc, out, err = sh(cmd, cwd="/repo", env={"CARGO_NET_OFFLINE": "true", "RUSTFLAGS": "-Awarnings"}, timeout=1200)
    if rc != 0:
        sys.stderr.write(err[-4000:])
        raise ToolError("cargo build of /repo failed")
    path = os.path.join(tdir, "debug", "gb-dynarec")
    _built[key] = path
    return path


def gbv(args, jit=False, timeout=3600, env=None, stdin=None):
    """Run the harness; returns list of parsed JSON lines from stdout."""
    path = build_harness(jit)
    e = {"VERIF_SEED": seed()}
    if env:
        e.update(env)
    rc, out, err = sh([path] + [str(a) for a in args], cwd=VERIF, env=e, timeout=timeout, input=stdin)
    if rc < 0:
        raise CodeCrash(["gbv"] + list(args), rc, err)
    if rc != 0:
        sys.stderr.write(err[-3000:])
        raise ToolError("harness command failed rc=%s: gbv %s" % (rc, " ".join(map(str, args[:4]))))
    recs = []
    for line in out.splitlines():
        line = line.strip()
        if not line.startswith("{"):
            continue
        try:
            recs.append(json.loads(line))
        except ValueError:
            raise ToolError("harness printed a malformed line: %r" % line[:200])
    return recs


# -------------------------------------------------------------------- TLC
class TlcResult:
    def __init__(self, text, rc, wall):
        self.text = text
        self.rc = rc
        self.wall = wall
        m = None
        for m in re.finditer(r"(\d+) states generated, (\d+) distinct states found, (\d+) states left on queue", text):
            pass
        self.generated = int(m.group(1)) if m else 0
        self.distinct = int(m.group(2)) if m else 0
        self.left = int(m.group(3)) if m else 0
        m = re.search(r"The depth of the complete state graph search is (\d+)", text)
        self.depth = int(m.group(1)) if m else 0
        self.ok = "Model checking completed. No error has been found." in text or \
                  ("Finished in" in text and "Error:" not in text and "is violated" not in text and "is false" not in text)
        self.errors = [l for l in text.splitlines() if l.startswith("Error:")]
        # PrintT output lines
        self.prints = [l for l in text.splitlines() if l.startswith("<<") or l.startswith('"')]
        # per-action coverage: <Action line ... of module M>: distinct:generated
        self.coverage = {}
        for cm in re.finditer(r"^<(\w+) line \d+, col \d+ to line \d+, col \d+ of module (\w+)(?: \([\d ]+\))?>: (\d+):(\d+)", text, re.M):
            self.coverage[cm.group(1)] = self.coverage.get(cm.group(1), 0) + int(cm.group(4))

    def printed(self, tag):
        """Tuples printed with PrintT(<<tag, ...>>): returns the raw lines."""
        return [l for l in self.prints if l.startswith('<<"%s"' % tag)]


_tlc_n = [0]


def tlc(module, cfg=None, env=None, workers=1, timeout=900, coverage=False, dfs=False, xmx="3g",
        simulate=None, depth=None, extra=None, check=True, light=False):
    """Run TLC on spec/<module>.tla with spec/<cfg or module>.cfg."""
    _tlc_n[0] += 1
    md = os.path.join(rundir(), "tlc-%d-%d" % (os.getpid(), _tlc_n[0]))
    os.makedirs(md, exist_ok=True)
    cfgfile = os.path.join(SPEC, (cfg or module) + ".cfg")
    if not os.path.exists(cfgfile):
        raise ToolError("missing TLC config %s" % cfgfile)
    # light: many short single-threaded JVMs side by side (sharded generators, trace validators):
    # serial GC and C1-only compilation, otherwise the JVMs' own compiler/GC threads starve each other
    jopts = (["-XX:+UseSerialGC", "-XX:TieredStopAtLevel=1", "-XX:CICompilerCount=1"] if light else ["-XX:+UseParallelGC"]) + ["-Xmx" + xmx, "-Xss1g", "-Djava.io.tmpdir=" + md]
    if dfs:
        jopts.append("-Dtlc2.tool.queue.IStateQueue=StateDeque")
    cmd = ["java"] + jopts + ["-cp", TLA_CP, "tlc2.TLC", "-workers", str(workers), "-metadir", md,
                              "-cleanup", "-noGenerateSpecTE", "-seed", "1", "-fp", "1"]
    if coverage:
        cmd += ["-coverage", "1"]
    if simulate:
        cmd += ["-simulate", "num=%d" % simulate]
        if depth:
            cmd += ["-depth", str(depth)]
    if extra:
        cmd += extra
    cmd += ["-config", cfgfile, os.path.join(SPEC, module + ".tla")]
    t0 = time.time()
    e = dict(env or {})
    rc, out, err = sh(cmd, cwd=SPEC, env=e, timeout=timeout)
    shutil.rmtree(md, ignore_errors=True)
    res = TlcResult(out + "\n" + err, rc, time.time() - t0)
    if check and not res.ok:
        tail = "\n".join(res.text.splitlines()[-40:])
        raise ToolError("TLC did not finish cleanly on %s:\n%s" % (module, tail))
    return res


def tlc_parallel(jobs, maxpar=None):
    """jobs: list of kwargs dicts for tlc(); run concurrently in threads."""
    from concurrent.futures import ThreadPoolExecutor
    maxpar = maxpar or min(NCPU, 16)
    with ThreadPoolExecutor(max_workers=maxpar) as ex:
        futs = [ex.submit(lambda kw=kw: tlc(**kw)) for kw in jobs]
        return [f.result() for f in futs]


def spec_hash():
    """Hash of every specification file: generated cases are a function of the specification only."""
    h = hashlib.sha256()
    for f in sorted(glob.glob(os.path.join(SPEC, "*.tla")) + glob.glob(os.path.join(SPEC, "*.cfg"))):
        h.update(f.encode())
        with open(f, "rb") as fh:
            h.update(fh.read())
    return h.hexdigest()


def read_ndjson(path):
    out = []
    with open(path) as f:
        for line in f:
            line = line.strip()
            if line:
                out.append(json.loads(line))
    return out


def write_ndjson(path, recs):
    with open(path, "w") as f:
        for r in recs:
            f.write(json.dumps(r, separators=(",", ":")))
            f.write("\n")


# ---------------------------------------------------------- known findings
def load_known():
    p = os.path.join(VERIF, "known_findings.json")
    if not os.path.exists(p):
        return []
    with open(p) as f:
        return json.load(f).get("findings", [])


def _match_value(pat, val):
    if isinstance(pat, dict):
        if "in" in pat:
            return val in pat["in"]
        if "range" in pat:
            return isinstance(val, (int, float)) and pat["range"][0] <= val <= pat["range"][1]
        if "contains" in pat:
            return isinstance(val, (list, str)) and pat["contains"] in val
        if "subset_of" in pat:
            return isinstance(val, list) and all(v in pat["subset_of"] for v in val)
        if "eq" in pat:
            return val == pat["eq"]
        return False
    return pat == val


def _get_path(rec, key):
    cur = rec
    for part in key.split("."):
        if isinstance(cur, dict) and part in cur:
            cur = cur[part]
        else:
            return None
    return cur


def known_match(prop, rec):
    """Return the known finding (state == 'known') matching this mismatch record."""
    for kf in load_known():
        if kf.get("property") != prop or kf.get("state") != "known":
            continue
        m = kf.get("match", {})
        if all(_match_value(p, _get_path(rec, k)) for k, p in m.items()):
            return kf
    return None


# ---------------------------------------------------------------- verdicts
class Check:
    def __init__(self, prop, tier):
        self.prop = prop
        self.tier = tier
        self.t0 = time.time()
        self.states = 0
        self.transitions = 0
        self.traces = 0
        self.evaluations = 0
        self.nontrivial = set()
        self.nontrivial_count = 0
        self.samples = []
        self.violations = []
        self.known = {}
        self.extra = {}
        self.assumptions = []
        self.tlc_runs = []
        self.exhaustive = None
        self.rule = ""

    # --- accounting
    def add_tlc(self, name, res, mc=True):
        self.tlc_runs.append({"module": name, "states_generated": res.generated, "distinct": res.distinct,
                              "depth": res.depth, "wall_s": round(res.wall, 2),
                              "coverage": res.coverage or None})
        if mc:
            self.states += res.distinct
            self.transitions += res.generated

    def require_coverage(self, res, actions):
        missing = [a for a in actions if res.coverage.get(a, 0) == 0]
        if missing:
            raise ToolError("vacuity: actions never taken in model: %s" % missing)

    def sample(self, obj, limit=4):
        if len(self.samples) < limit:
            self.samples.append(obj)

    def count(self, n=1):
        self.evaluations += n

    def distinct(self, key):
        self.nontrivial.add(hashlib.blake2b(repr(key).encode(), digest_size=8).digest())

    # --- mismatches
    def mismatch(self, rec, name=None):
        """A conformance failure on a concrete case; known findings are reported as such."""
        kf = known_match(self.prop, rec)
        if kf is not None:
            k = kf["what"]
            self.known.setdefault(k, 0)
            self.known[k] += 1
            return False
        self.violations.append((rec, name))
        return True

    def finish(self, level="model_checking"):
        os.makedirs(EVID, exist_ok=True)
        wall = time.time() - self.t0
        cov = {
            "states": self.states, "transitions": self.transitions,
            "traces_validated_against_impl": self.traces,
            "samples": self.samples if self.samples else [{"note": "no sample recorded"}],
            "evaluations": self.evaluations,
            "distinct_nontrivial": len(self.nontrivial) + self.nontrivial_count,
            "rule": self.rule,
            "tlc_runs": self.tlc_runs,
            "known_findings_hit": self.known,
        }
        if self.exhaustive is not None:
            cov["exhaustive"] = self.exhaustive
        cov.update(self.extra)
        ev = {"property_id": self.prop, "tier": self.tier, "seed": seed(), "level": level,
              "coverage": cov, "assumptions": self.assumptions, "wall_s": round(wall, 2),
              "violations": len(self.violations)}
        with open(os.path.join(EVID, self.prop + ".json"), "w") as f:
            json.dump(ev, f, indent=1)
        for what, n in self.known.items():
            print("KNOWN-FINDING: property=%s %s (%d cases)" % (self.prop, what, n))
        if self.violations:
            d = os.path.join(REPLAY, self.prop)
            os.makedirs(d, exist_ok=True)
            shown = 0
            seen = set()
            for i, (rec, name) in enumerate(self.violations):
                cls = name or rec.get("class") or rec.get("kind") or "case"
                if cls in seen:
                    continue
                seen.add(cls)
                fn = os.path.join(d, "%s-%s.json" % (re.sub(r"[^A-Za-z0-9_.-]", "_", str(cls))[:60], i))
                with open(fn, "w") as f:
                    json.dump({"property": self.prop, "case": rec}, f, indent=1)
                print("VIOLATION property=%s replay=%s" % (self.prop, fn))
                shown += 1
                if shown >= 12:
                    break
            print("%s: %d violating cases in %d classes" % (self.prop, len(self.violations), len(seen)))
            return 1
        print("%s: OK tier=%s states=%d transitions=%d traces=%d evaluations=%d wall=%.1fs" % (
            self.prop, self.tier, self.states, self.transitions, self.traces, self.evaluations, wall))
        return 0


def apalache(spec, args, timeout=900):
    """Run apalache-mc check on spec/apalache/<spec>; returns 'NoError' | 'Error' | 'unknown'."""
    d = os.path.join(SPEC, "apalache")
    out = os.path.join(rundir(), "apalache-out")
    try:
        os.makedirs(out, exist_ok=True)
        rc, o, e = sh(["apalache-mc", "check", "--out-dir=" + out] + args + [spec], cwd=d, timeout=timeout,
                      env={"JVM_ARGS": "-Djava.io.tmpdir=" + out})
    except ToolError:
        return "unknown"
    m = re.search(r"The outcome is: (\w+)", o + e)
    return m.group(1) if m else "unknown"


def run_until_patient(cmd, done, deadline=20.0, settle=0.0, env=None):
    """run_until, once more with three times the deadline when the first run hit it: a verdict must not come from a loaded
    machine (a process that really never produces the output is still reported, after the second run)."""
    r = run_until(cmd, done, deadline, settle, env)
    if r[2]:
        r = run_until(cmd, done, 3 * deadline, settle, env)
    return r


def run_until(cmd, done, deadline=20.0, settle=0.0, env=None):
    """Run a process that never exits by itself (the emulator binary) and collect its stdout until
    done(bytes) is true (plus `settle` seconds to see whether anything more arrives), the process exits,
    or the deadline passes. No fixed short time-out: the verdict must not depend on machine load.
    Returns (stdout bytes, exit code or None if it had to be killed, timed_out)."""
    import select
    e = dict(os.environ)
    e["RUST_BACKTRACE"] = "0"
    if env:
        e.update(env)
    p = subprocess.Popen(cmd, stdout=subprocess.PIPE, stderr=subprocess.DEVNULL, env=e)
    buf = b""
    t_end = time.time() + deadline
    t_settle = None
    fd = p.stdout.fileno()
    os.set_blocking(fd, False)
    timed_out = False
    chunk = None
    while True:
        now = time.time()
        if t_settle is not None and now >= t_settle:
            break
        if now >= t_end:
            timed_out = t_settle is None
            break
        r, _, _ = select.select([fd], [], [], 0.05)
        if r:
            try:
                chunk = os.read(fd, 65536)
            except BlockingIOError:
                chunk = None
            if chunk == b"":
                break                      # EOF: the process closed stdout (exited)
            if chunk:
                buf += chunk
        if t_settle is None and done(buf):
            t_settle = time.time() + settle
        if p.poll() is not None and not r:
            break
    rc = p.poll()
    if rc is None and chunk == b"":
        # stdout reached end of file: the process is exiting; its status is available a moment later
        try:
            rc = p.wait(timeout=30)
        except subprocess.TimeoutExpired:
            rc = None
    if rc is None:
        p.kill()
        p.wait()
        rc = None
    else:
        # drain what is left
        try:
            while True:
                chunk = os.read(fd, 65536)
                if not chunk:
                    break
                buf += chunk
        except (BlockingIOError, OSError):
            pass
    p.stdout.close()
    return buf, rc, timed_out
