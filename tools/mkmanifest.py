#!/usr/bin/env python3
"""Writes /verif/MANIFEST.json from the table below (one source of truth)."""
import json, os, subprocess
V = os.path.dirname(os.path.dirname(os.path.abspath(__file__)))

CHECKS = {
 # id: (technique, level text, level note, design ref)
 "C01": ("TLC: MC_Cpu + complete data-operation tables (Gen_Alu) and boundary cases for all 500 opcodes (Gen_Instr) exported by TLC and executed through both engines on the same one-instruction block; random straight-line blocks compared at the engine level and as whole emulator steps in both builds, the block traces validated against Machine.tla by TLC",
         "The verdict is the pair equality the statement demands (registers, status modulo Core's interpretation, ordered bus writes, memory and device registers); the operand space of every register form is covered completely, pointer forms over region-boundary lattices, blocks by random generation. The specification (TLC) supplies the cases and the diagnosis of which engine deviates.",
         "Trusted: TLC, the bus-recorder hook, the harness pair comparison. 'Host process intact' is observed (worker survival, registers of the harness after each call), not modelled; silent corruption that changes nothing compared is out of reach. Self-modifying bank switches inside a block are C03's business (random blocks use a ROM-only cartridge).",
         "DESIGN.md 5/C01"),
 "C02": ("same machinery as C01 projected to machine cycles: every defined opcode x all 16 flag states as one-instruction blocks in both engines (TLC-generated), complete operand tables, sums over random blocks at the engine level and as delivered device clocks in both builds",
         "The cycle table is finite: opcode x flag state decides the count, and that product is executed completely in both engines; a mismatch in cycles only is attributed here, any other mismatch to C01.",
         "Trusted: as C01. The comparison with SM83.tla's cycle column is diagnosis only (a common deviation of both engines is C06's business).",
         "DESIGN.md 5/C02"),
 "C05": ("TLC: algebraic theorems about SM83Alu (BCD, inverses, compositions), MC_Cpu, and the complete data-operation tables exported by TLC (Gen_Alu) swept through interpreter::run_next_op over the whole operand domain of every data opcode; boundary cases (Gen_Instr) for memory forms",
         "The oracle is the specification evaluated by TLC, itself cross-examined by theorems that do not mention the code; the domain stated in the quantifier is enumerated completely (135 M states per run), so this is exhaustive rather than sampled.",
         "Trusted: TLC, SM83Alu.tla as the reading of the instruction set, the harness table lookup. ADD HL,rr and ADD SP,e expectations are compositions of the exported byte adder (theorems AddHLBytewise / AddSPLowByte checked by TLC on grids); all 2^32 ADD HL pairs are not enumerated.",
         "DESIGN.md 5/C05"),
 "C06": ("TLC: MC_Cpu (length, cycle, stack and status laws over all programs of bounded length) + decode table for all 512 encodings exported by TLC (Gen_Decode) against decoder/is_block_end/run_next_op in all 16 flag states + TLC-generated control-flow and stack cases over PC/SP lattices and all JR displacements + straddling-fetch programs validated against Machine.tla",
         "Length, timing and block-end are functions of the encoding and the flags: that product is executed completely; targets and stack transfers are checked on generated boundary cases with expected ordered bus writes.",
         "Trusted: TLC, SM83.tla's decode structure (written from the octal structure of the encoding, not from the match table). Undefined opcodes: refusal by panic or by lock-up both accepted.",
         "DESIGN.md 5/C06"),
 "C07": ("TLC model checking of MC_Irq over the complete IF x IE x IME x run-state x SP-class x PC-class space + the same space exported by TLC (Gen_Irq) and replayed through Core::handle_interrupt / Core::update",
         "Dispatch is a finite function of a finite state: the six clauses of the statement are checked by TLC on every point of the space and every point is executed on the code (552 960 cases), so the binding is exhaustive over the stated quantifier.",
         "Trusted: TLC, the harness field mapping (cmd_irq.rs, world.rs poke). Stack-pointer classes stand for regions; pushes onto other device registers are covered by the machine traces of C04/C08.",
         "DESIGN.md 5/C07"),
 "C08": ("TLC model checking of MC_IntState (all sequences <= L with device requests while halted) + every sequence <= L materialised as a real program, stepped with Core::update and validated step by step by TLC against Machine.tla (Trace_Machine)",
         "History property over instruction sequences: TLC enumerates all sequences on the model; the same sequences run on the code and each recorded step must be the specification's step, so a sequencing error at any position is caught.",
         "Trusted: TLC, Machine.tla as the reading of the SM83/DMG behaviour, the recorder projection (cmd_machine.rs). HALT with an enabled interrupt already pending behaves as the emulator's simplification (wakes at once).",
         "DESIGN.md 5/C08"),
 "C09": ("TLC model checking of MC_Clock (conservation invariant over all step/halt/dispatch interleavings, frame-stepping liveness under weak fairness on a scaled LCD) + Trace_Clock validating the time projection of recorded machine traces in three stepping modes (hooks: CPU-reported cycles, per-device delivered clocks)",
         "Conservation is an invariant of every step of every run: the model is checked exhaustively and every recorded step of instruction-stepped, block-stepped and jit runs (incl. run_frame calls) is checked against it using counters that do not depend on device semantics.",
         "Trusted: TLC, the three clock-counter hooks and the CPU-cycle hook. The frame clause assumes no single step is longer than the vertical blanking period (TLC shows it false otherwise; see DESIGN 6).",
         "DESIGN.md 5/C09"),
 "C10": ("TLC theorems on Machine.tla's memory map (partition, injective storage keys, constant unmapped regions, ROM immutable) + cell map computed by TLC from MRead/MWrite (Gen_Bus) driving a write/probe sweep of the real bus + random bus histories over all implemented I/O registers validated by TLC against Machine.tla (Trace_Machine)",
         "The map is a finite function: its algebraic laws are checked by TLC on all 65536 addresses and the code is swept against the exported map (every non-device address as target; all 65536 probes per target in the thorough tier); device registers are covered by validated histories.",
         "Trusted: TLC, Machine.tla's map as the reading of the documented regions (Dev_EchoZero: echo RAM reads 0), the sweep's shadow store. P1 bits 6-7 and STAT bit 7 are masked out of comparisons.",
         "DESIGN.md 5/C10"),
 "C11": ("TLC: index-bound invariants over every (type, ROM size, RAM size) x register state (Thm_Bus IndexBounds, MC_Cart InBounds) + every configuration loaded through Core::from_rom_file and swept (register lattice x addresses x 4 access kinds) in isolated workers with overflow checks on + edge-case instructions validated against Machine.tla",
         "At model level the property is 'every access is enabled and its physical index is inside the cartridge'; on the code the observation is completion of each access in an isolated process, complete over configurations (504) and, in the thorough tier, over all addresses.",
         "Trusted: TLC, process isolation by fork (a dead worker is attributed to the configuration it announced). Silent out-of-bounds reads that neither crash nor change a compared value are out of reach (slice indexing is bounds-checked in this build).",
         "DESIGN.md 5/C11"),
 "C12": ("TLC model checking of MC_Cart (protocol laws as invariants of every reachable register state, all types and sizes) + complete register-space transition relation exported by TLC (Gen_Cart, 12.4 M transitions) replayed on bank-tagged images + random write/read histories validated against Machine.tla",
         "The controller is a small finite state machine: its complete transition relation (every register state x window x written byte) is executed on the code for the 2 MiB/32 KiB cartridges, and a register lattice on every other size.",
         "Trusted: TLC, Cart.tla as the reading of the register protocol (two-mode MBC1 description with bank 0 fixed at 0x0000-0x3FFF, as the statement says), the bank tags of the harness images. RAM-enable gating is not emulated (Dev_NoRamGate).",
         "DESIGN.md 5/C12"),
 "C13": ("TLC: theorems (closed form = per-clock machine, additivity, DIV/period/TAC-edge laws) and MC_Timer (write/advance interleavings in lock-step with a per-clock shadow) + recorded histories (bus writes, batches 1..100000, phases via hook, partition runs) validated by Trace_Timer",
         "Batching independence is additivity of the specification (checked by TLC) plus conformance of every recorded batch to it; partition runs deliver the same scenario under 8 partitions.",
         "Trusted: TLC, Timer.tla, the divider-phase hook. A DIV write while the selected bit is high may or may not clock TIMA (statement silent): both accepted.",
         "DESIGN.md 5/C13"),
 "C14": ("TLC: theorems (closed-form schedule = 4-clock state machine over a whole frame x STAT masks x LYC, additivity, frame/mode/STAT laws) and MC_Lcd + recorded histories (all 16 STAT masks x LYC set over >3 frames in random partitions, hook-set start positions) validated by Trace_Lcd",
         "The schedule is a closed-form function of elapsed clocks in the specification (the statement), so any partition-dependent or off-by-a-line behaviour of the code is a rejected trace.",
         "Trusted: TLC, Lcd.tla, the LCD position hook (start positions restricted to modes 0/1 where the pixel pipeline is idle). STAT requests at register-write time are accepted either way.",
         "DESIGN.md 5/C14"),
 "C16": ("TLC model checking of MC_Dma (scaled length; start/advance/modify interleavings, per-cycle shadow) + recorded histories with the real length over all 256 source pages, random partitions, source edits, restarts, validated by Trace_Dma",
         "Copy progress, order, source-at-copy-time and 'nothing else touched' are state invariants of the trace specification evaluated after every recorded batch.",
         "Trusted: TLC, the DMA progress hook, the recorder's source snapshot (taken through the real bus immediately before each batch) and its hash of all other memory.",
         "DESIGN.md 5/C16"),
 "C17": ("TLC model checking of MC_Joypad + complete transition relation exported by TLC (Gen_Joypad) replayed on the real Joypad and through the bus/IF + recorded random histories validated by TLC (Trace_Joypad)",
         "The joypad is a 2^11-state machine: TLC explores every interleaving on the model and the complete transition relation (40 960 transitions) is executed on the code, so the binding is exhaustive, not sampled.",
         "Trusted: TLC, the harness field mapping (cmd_joypad.rs), the verif_pending hook. Buttons are injected at the Joypad API (the graphics shell is out of scope).",
         "DESIGN.md 5/C17"),
}

NOT_APPLICABLE = {
}

def main():
    hooks = subprocess.run(["git", "-C", "/repo", "log", "--format=%h %s"], capture_output=True, text=True).stdout.splitlines()
    hook_commits = [l.split()[0] for l in hooks if l.split(" ", 1)[1].startswith("verif hooks")]
    props = [json.loads(l)["id"] for l in open(os.path.join(V, "properties.jsonl"))]
    checks = []
    for pid in props:
        if pid not in CHECKS:
            continue
        tech, text, note, ref = CHECKS[pid]
        checks.append({
            "property_id": pid,
            "quick_cmd": "./check %s --tier quick" % pid,
            "thorough_cmd": "./check %s --tier thorough" % pid,
            "evidence_file": "/verif/evidence/%s.json" % pid,
            "replay_cmd_template": "./check %s --replay {path}" % pid,
            "engine": "tla-conformance",
            "level_claimed": {"category": "model_checking", "text": text, "design_ref": ref},
            "level_note": note,
            "technique": tech,
        })
    na = [{"property_id": p, "reason": NOT_APPLICABLE.get(p, "check not built yet in this round; see DESIGN.md section 10")}
          for p in props if p not in CHECKS]
    man = {
        "version": 1,
        "setup_cmd": "./setup.sh",
        "hooks": {
            "guard": "gb_dynarec_verif",
            "enable": "RUSTFLAGS --cfg gb_dynarec_verif (set in /verif/harness/.cargo/config.toml; the harness includes /repo/src/*.rs by #[path])",
            "baseline_off_cmd": "cd /repo && cargo test --offline --no-fail-fast",
            "source_commits": hook_commits,
            "add_only": True,
        },
        "engines": [{"name": "tla-conformance", "path": "/verif/check",
                     "serves_properties": [c["property_id"] for c in checks],
                     "kind_free_text": "explicit TLA+ specification (/verif/spec) checked by TLC; bound to the code by TLC-generated cases replayed through /verif/harness (Rust, includes /repo/src by path) and by recorded traces validated by TLC trace specifications"}],
        "checks": checks,
        "not_applicable": na,
        "notes": "Exit codes: 0 held, 1 VIOLATION (with replay file), 2 tool failure. Known findings in /verif/known_findings.json.",
    }
    with open(os.path.join(V, "MANIFEST.json"), "w") as f:
        json.dump(man, f, indent=1)
    print("MANIFEST.json: %d checks, %d not_applicable" % (len(checks), len(na)))

if __name__ == "__main__":
    main()
