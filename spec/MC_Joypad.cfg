SPECIFICATION Spec
INVARIANT TypeOK
INVARIANT RegisterLaw
INVARIANT NothingSelected
PROPERTY RequestLaw
CHECK_DEADLOCK FALSE
