-------------------------------- MODULE Timer --------------------------------
(***************************************************************************)
(* DIV / TIMA / TMA / TAC (C13).                                           *)
(*                                                                         *)
(* t = [div : 0..65535, tima, tma, tac : 0..255]                           *)
(* `div' is the free-running 16-bit divider clocked once per clock cycle;  *)
(* DIV (0xFF04) is its high byte and any write to DIV clears all 16 bits.  *)
(* TIMA counts falling edges of the divider bit selected by TAC bits 0-1   *)
(* (bit 9, 3, 5, 7 -> periods 1024, 16, 64, 256 clocks) while TAC bit 2 is *)
(* set; the signal observed by the edge detector is (enable AND bit), so a *)
(* TAC write that deselects a high bit or disables the timer while the     *)
(* bit is high is an edge too.  On overflow TIMA reloads from TMA and the  *)
(* timer interrupt is requested.                                           *)
(*                                                                         *)
(* Deviations of the emulator from DMG hardware, modelled as the emulator  *)
(* intends them:  Dev_NoReloadDelay (reload and request are immediate),    *)
(* Dev_NoDivGlitch (see WriteDIVResults: either behaviour is accepted).    *)
(***************************************************************************)
EXTENDS Bits

SelBit(tac) == CASE tac % 4 = 0 -> 9 [] tac % 4 = 1 -> 3 [] tac % 4 = 2 -> 5 [] OTHER -> 7
Period(tac) == Pow2(SelBit(tac) + 1)
Enabled(tac) == Bit(tac, 2) = 1
Gate(t) == Enabled(t.tac) /\ Bit(t.div, SelBit(t.tac)) = 1

PowerOn == [div |-> 0, tima |-> 0, tma |-> 0, tac |-> 0]

\* one TIMA increment; result carries the request raised
Inc(t) == IF t.tima = 255 THEN [t |-> [t EXCEPT !.tima = t.tma], irq |-> TRUE]
          ELSE [t |-> [t EXCEPT !.tima = t.tima + 1], irq |-> FALSE]

\* one clock cycle
Tick(t) ==
  LET t1 == [t EXCEPT !.div = (t.div + 1) % 65536]
  IN IF Gate(t) /\ ~Gate(t1) THEN Inc(t1) ELSE [t |-> t1, irq |-> FALSE]

\* n clock cycles, one at a time (the definition)
RECURSIVE IterAcc(_, _, _)
IterAcc(t, n, irq) == IF n = 0 THEN [t |-> t, irq |-> irq]
                      ELSE LET a == Tick(t) IN IterAcc(a.t, n - 1, irq \/ a.irq)
Iter(t, n) == IterAcc(t, n, FALSE)

\* n clock cycles in closed form: the number of falling edges of the selected
\* bit in (div, div+n] is floor((div+n)/P) - floor(div/P); 65536 is a multiple of P.
Edges(div, n, tac) == ((div + n) \div Period(tac)) - (div \div Period(tac))
Run(t, n) ==
  LET d1 == (t.div + n) % 65536
      k  == IF Enabled(t.tac) THEN Edges(t.div, n, t.tac) ELSE 0
      room == 256 - t.tima                \* increments until the first overflow
  IN IF k < room THEN [t |-> [t EXCEPT !.div = d1, !.tima = t.tima + k], irq |-> FALSE]
     ELSE [t |-> [t EXCEPT !.div = d1, !.tima = t.tma + ((k - room) % (256 - t.tma))], irq |-> TRUE]

(* register writes *)
WriteTAC(t, v) ==
  LET t1 == [t EXCEPT !.tac = v]
  IN IF Gate(t) /\ ~Gate(t1) THEN Inc(t1) ELSE [t |-> t1, irq |-> FALSE]
WriteTIMA(t, v) == [t EXCEPT !.tima = v]
WriteTMA(t, v)  == [t EXCEPT !.tma = v]
\* A DIV write clears the divider.  Whether the resulting fall of a high selected
\* bit clocks TIMA is not fixed by the property statement: both are accepted.
WriteDIVResults(t) ==
  LET t0 == [t EXCEPT !.div = 0]
  IN {[t |-> t0, irq |-> FALSE]} \cup (IF Gate(t) THEN {Inc(t0)} ELSE {})

(* register reads *)
ReadDIV(t)  == t.div \div 256
ReadTIMA(t) == t.tima
ReadTMA(t)  == t.tma
ReadTAC(t)  == t.tac             \* bits 0-2 are the defined ones
=============================================================================
