-------------------------------- MODULE Clock --------------------------------
(***************************************************************************)
(* Conservation of emulated time between the CPU and the devices (C09).    *)
(* The projection of Machine to time:                                      *)
(*   k = [pend : machine cycles charged to the CPU but not yet delivered,  *)
(*        cpu  : machine cycles charged so far,                            *)
(*        dev  : clocks delivered so far to each device (timer, LCD, DMA)] *)
(* A running step consumes c >= 1 machine cycles, delivers 4 x (c + pend)  *)
(* clocks to every device, then may dispatch an interrupt, which charges   *)
(* five cycles delivered with the next step.  A halted/stopped step        *)
(* delivers 4 clocks (one machine cycle) and leaves pending cycles pending.*)
(***************************************************************************)
EXTENDS Naturals

Devices == {"timer", "lcd", "dma"}
Zero == [pend |-> 0, cpu |-> 0, dev |-> [d \in Devices |-> 0]]

RunStep(k, c, disp) ==
  [pend |-> IF disp THEN 5 ELSE 0,
   cpu  |-> k.cpu + c + (IF disp THEN 5 ELSE 0),
   dev  |-> [d \in Devices |-> k.dev[d] + 4 * (c + k.pend)]]
HaltStep(k, disp) ==
  [pend |-> k.pend + (IF disp THEN 5 ELSE 0),
   cpu  |-> k.cpu + 1 + (IF disp THEN 5 ELSE 0),
   dev  |-> [d \in Devices |-> k.dev[d] + 4]]

Conserved(k) == \A d \in Devices : k.dev[d] = 4 * (k.cpu - k.pend)
=============================================================================
