SPECIFICATION Spec
CONSTANTS
  MaxC = 3
  Lines = 6
  VLines = 3
  LineLen = 12
  MaxTotal = 90
INVARIANT ConservedInv
INVARIANT FrameBound
PROPERTY Advances
PROPERTY Terminates
CHECK_DEADLOCK FALSE
