//! Bus family: C12 (controller relation replay), C11 (no access crashes),
//! C10 (write/probe sweep driven by the specification's cell map, random
//! bus histories for Trace_Machine).
use crate::emulator::Core;
use crate::mem::{memory_read_byte, memory_read_word, memory_write_byte, memory_write_word};
use crate::util::*;
use crate::world::*;
use serde_json::{json, Value};
use std::io::Write;

fn tag_banks(core: &mut Core) {
  let banks = core.memory.rom.len() / 0x4000;
  for b in 0..banks {
    let base = b * 0x4000;
    core.memory.rom[base] = b as u8; core.memory.rom[base + 1] = (b >> 8) as u8;
    core.memory.rom[base + 0x3ffe] = b as u8; core.memory.rom[base + 0x3fff] = (b >> 8) as u8;
  }
  // the last byte of the fixed bank is the opcode of LD BC,nn: fetched there, its operand is the tag of whichever bank is
  // visible at 0x4000 ("the ROM bank visible at 0x4000-0x7FFF" for instruction fetch as for data reads)
  core.memory.rom[0x3fff] = 0x01;
  let n = core.memory.cart_ram.len();
  if n >= 0x2000 {
    for k in 0..n / 0x2000 { core.memory.cart_ram[k * 0x2000] = 0x40 | k as u8; core.memory.cart_ram[k * 0x2000 + 0x1fff] = 0x80 | k as u8; }
  } else if n > 0 {
    core.memory.cart_ram[0] = 0x40; core.memory.cart_ram[n - 1] = 0x80;
  }
}

fn observe_banks(core: &mut Core) -> (u64, u64, bool) {
  let p = mem_ptr(core);
  let lo = memory_read_byte(p, 0x4000) as u64 | (memory_read_byte(p, 0x4001) as u64) << 8;
  let hi = memory_read_byte(p, 0x7ffe) as u64 | (memory_read_byte(p, 0x7fff) as u64) << 8;
  // (the image's first 16 KiB ends in that opcode instead of the high byte of its tag)
  let hi = if hi == 0x0100 { 0 } else { hi };
  core.registers.ip = 0x3fff;
  let _ = crate::interpreter::run_next_op(&mut core.registers, p);
  let fetched = (core.registers.bc & 0xffff) as u64;
  let rb = if lo != hi { 0xffff_0000 | lo } else if fetched != lo { 0xfe7c_0000 | fetched } else { lo };
  let n = core.memory.cart_ram.len();
  let a = memory_read_byte(p, 0xa000) as u64; let b = memory_read_byte(p, 0xbfff) as u64;
  let mb = if n == 0 { if a == 0xff && b == 0xff { 0 } else { 0xee00 | a } }
           else if a & 0xc0 == 0x40 && b & 0xc0 == 0x80 && (a & 0x3f) == (b & 0x3f) { a & 0x3f } else { 0xdd0000 | a << 8 | b };
  let bank0 = memory_read_byte(p, 0x0000) == 0 && memory_read_byte(p, 0x0001) == 0 && memory_read_byte(p, 0x3ffe) == 0 && memory_read_byte(p, 0x3fff) == 0x01;
  (rb, mb, bank0)
}

pub fn mbc(args: &[String]) {
  let cases = read_ndjson(&arg_value(args, "--cases").expect("--cases"));
  silence_panics();
  let mut order: Vec<usize> = (0..cases.len()).collect();
  order.sort_by_key(|i| (ju(&cases[*i]["t"]), ju(&cases[*i]["rc"]), ju(&cases[*i]["mc"])));
  let mut cur: Option<(u64, u64, u64)> = None;
  let mut core = plain_core();
  let mut n = 0u64;
  let res = run_isolated(order.len(), |oi, out| {
    let case = &cases[order[oi]];
    let key = (ju(&case["t"]), ju(&case["rc"]), ju(&case["mc"]));
    if cur != Some(key) {
      core = new_core(key.0 as u8, ju(&case["banks"]) as usize, ju(&case["ram"]) as usize);
      tag_banks(&mut core);
      cur = Some(key);
    }
    let p = mem_ptr(&mut core);
    let (rom, hi, mode) = (ju(&case["pre"]["rom"]) as u8, ju(&case["pre"]["hi"]) as u8, ju(&case["pre"]["mode"]) as u8);
    let a = ju(&case["a"]) as u16;
    let exp = case["exp"].as_array().unwrap();
    let mut bad: Vec<Value> = Vec::new();
    for v in 0..256usize {
      memory_write_byte(p, 0x2000, rom); memory_write_byte(p, 0x4000, hi); memory_write_byte(p, 0x6000, mode);
      if v == 0 {
        let (rb, mb, b0) = observe_banks(&mut core);
        if rb != ju(&case["pre_rb"]) || mb != ju(&case["pre_mb"]) || !b0 { bad.push(json!({"v": "pre", "rb": rb, "mb": mb, "bank0": b0})); }
      }
      memory_write_byte(p, a, v as u8);
      let (rb, mb, b0) = observe_banks(&mut core);
      if rb != ju(&exp[v][0]) || mb != ju(&exp[v][1]) || !b0 {
        if bad.len() < 4 { bad.push(json!({"v": v, "rb": rb, "mb": mb, "bank0": b0, "exp": exp[v]})); }
      }
    }
    // a 16-bit store (LD (a16),SP, an interrupt's pushes) is two byte stores, low byte first: the registers it leaves behind
    // are those of the two byte writes the specification has just been compared with
    for w in [0x0105u16, 0x0802, 0xff00, 0x00ff, 0x2103, 0x0180].iter() {
      memory_write_byte(p, 0x2000, rom); memory_write_byte(p, 0x4000, hi); memory_write_byte(p, 0x6000, mode);
      memory_write_byte(p, a, *w as u8); memory_write_byte(p, a.wrapping_add(1), (*w >> 8) as u8);
      let want = observe_banks(&mut core);
      memory_write_byte(p, 0x2000, rom); memory_write_byte(p, 0x4000, hi); memory_write_byte(p, 0x6000, mode);
      memory_write_word(p, a, *w);
      let got = observe_banks(&mut core);
      if got != want && bad.len() < 4 { bad.push(json!({"v": format!("word {:#06x}", w), "rb": got.0, "mb": got.1, "bank0": got.2, "exp": [want.0, want.1]})); }
    }
    if !bad.is_empty() {
      let line = json!({"kind": "mismatch", "t": case["t"], "rc": case["rc"], "mc": case["mc"], "pre": case["pre"], "a": case["a"], "bad": bad});
      out.extend_from_slice(line.to_string().as_bytes()); out.push(b'\n');
    }
  });
  for l in &res.lines { println!("{}", l); }
  for (i, st) in &res.crashes {
    let case = &cases[order[*i]];
    println!("{}", json!({"kind": "crash", "t": case["t"], "rc": case["rc"], "mc": case["mc"], "pre": case["pre"], "a": case["a"], "status": describe_status(*st)}));
  }
  println!("{}", json!({"kind": "summary", "cases": cases.len(), "transitions": cases.len() * 256, "crashes": res.crashes.len(), "truncated": res.truncated}));
}

/// header bytes with a valid checksum for (type, rom code, ram code)
fn write_rom_file(path: &str, t: u8, rc: u8, mc: u8) -> (usize, usize) {
  let hb = header_bytes(t, rc, mc);
  let h = header_from_bytes(&hb);
  let size = h.get_rom_size_bytes();
  let f = std::fs::OpenOptions::new().create(true).write(true).truncate(true).open(path).unwrap();
  f.set_len(size as u64).unwrap();
  use std::os::unix::fs::FileExt;
  f.write_all_at(&hb, 0x100).unwrap();
  (size, h.get_ram_size_bytes())
}

/// C11: every (type, ROM size, RAM size) a loadable file can declare, loaded through
/// Core::from_rom_file, x controller-register lattice x addresses x {read, write, word read,
/// word write}, each configuration in an isolated worker. The observation is completion.
pub fn crash(args: &[String]) {
  let all_addrs = args.iter().any(|a| a == "--all-addresses");
  let dir = arg_value(args, "--dir").expect("--dir");
  silence_panics();
  let types = [0u8, 1, 2, 3, 0x11, 0x12, 0x13];
  let rcs = [0u8, 1, 2, 3, 4, 5, 6, 7, 8, 0x52, 0x53, 0x54];
  let mcs = [0u8, 1, 2, 3, 4, 5];
  let mut cfgs: Vec<(u8, u8, u8)> = Vec::new();
  for t in types.iter() { for rc in rcs.iter() { for mc in mcs.iter() { cfgs.push((*t, *rc, *mc)); } } }
  let lattice: Vec<u16> = vec![0x0000, 0x0001, 0x1fff, 0x2000, 0x3fff, 0x4000, 0x5fff, 0x6000, 0x7ffe, 0x7fff, 0x8000, 0x9fff,
    0xa000, 0xa7ff, 0xa800, 0xbfff, 0xc000, 0xcfff, 0xd000, 0xdfff, 0xe000, 0xfdff, 0xfe00, 0xfe9f, 0xfea0, 0xfeff,
    0xff00, 0xff04, 0xff0f, 0xff40, 0xff41, 0xff44, 0xff46, 0xff7f, 0xff80, 0xfffe, 0xffff];
  let addrs: Vec<u16> = if all_addrs { (0..=0xffffu32).map(|a| a as u16).collect() } else { lattice };
  let regvals = [0u8, 1, 0x0a, 0x1f, 0x20, 0x3f, 0x60, 0x7f, 0x80, 0xff, 3, 2];
  let res = run_isolated(cfgs.len(), |i, out| {
    let (t, rc, mc) = cfgs[i];
    let path = format!("{}/crash_{}.gb", dir, std::process::id());
    write_rom_file(&path, t, rc, mc);
    let mut file = std::fs::File::open(&path).unwrap();
    let header = crate::system::read_header(&mut file).unwrap();
    let mut core = Core::from_rom_file(&mut file, header);
    let p = mem_ptr(&mut core);
    let mut n = 0u64;
    // controller register lattice: every combination of the values in the three bank registers and both modes
    for r2 in regvals.iter() { for r4 in [0u8, 1, 2, 3, 0x08, 0xff].iter() { for r6 in [0u8, 1].iter() {
      memory_write_byte(p, 0x0000, 0x0a); memory_write_byte(p, 0x2000, *r2); memory_write_byte(p, 0x4000, *r4); memory_write_byte(p, 0x6000, *r6);
      let full = all_addrs && (*r2 == 0xff || *r2 == 0) && *r6 == 1;
      for a in addrs.iter() {
        if *a < 0x8000 && !(*a == 0x0000 || *a == 0x3fff || *a == 0x4000 || *a == 0x7fff || full) { 
          // reads only: writes here would change the register state under test
          let _ = memory_read_byte(p, *a); let _ = memory_read_word(p, *a); n += 2; continue;
        }
        if *a >= 0xff00 && *a < 0xff80 && *a != 0xff0f {
          let _ = memory_read_byte(p, *a); let _ = memory_read_word(p, *a); n += 2;
          if *a != 0xff46 && *a != 0xff02 && *a != 0xff01 { continue; }
        }
        let v = memory_read_byte(p, *a); let _ = memory_read_word(p, *a);
        if *a >= 0x8000 { memory_write_byte(p, *a, v ^ 0x5a); memory_write_word(p, *a, 0x1234); }
        n += 4;
      }
    } } }
    // restore register state: ROM-area writes at the four window boundaries as accesses in their own right
    for a in [0x0000u16, 0x1fff, 0x2000, 0x3fff, 0x4000, 0x5fff, 0x6000, 0x7fff].iter() {
      for v in [0u8, 0xff, 0x0a].iter() { memory_write_byte(p, *a, *v); memory_write_word(p, *a, 0xffff); n += 2;
        let _ = memory_read_byte(p, 0x4000); let _ = memory_read_byte(p, 0x7fff); let _ = memory_read_byte(p, 0xa000); let _ = memory_read_byte(p, 0xbfff); n += 4; }
    }
    // every register of the I/O page written with a few values (assigned or not: what an unassigned register does with a
    // write is the emulator's business, but whatever it selects must not take a later access out of bounds), each time
    // followed by accesses at the region boundaries
    let touch: [u16; 19] = [0x0000, 0x3fff, 0x4000, 0x7fff, 0x8000, 0x9fff, 0xa000, 0xbfff, 0xc000, 0xcfff, 0xd000, 0xdfff, 0xe000,
                            0xfe00, 0xfe9f, 0xff80, 0xfffe, 0xffff, 0xff0f];
    for r in 0xff00u16..0xff80 {
      for v in [0u8, 1, 2, 7, 0x0a, 0x7f, 0xff].iter() {
        if r == 0xff02 && *v >= 0x80 { continue; }          // (a transfer would print into the report)
        memory_write_byte(p, r, *v); n += 1;
        for a in touch.iter() {
          let x = memory_read_byte(p, *a); let _ = memory_read_word(p, *a); n += 2;
          if *a >= 0x8000 { memory_write_byte(p, *a, x); n += 1; }
        }
      }
      memory_write_byte(p, r, 0);
    }
    let _ = std::fs::remove_file(&path);
    let line = json!({"kind": "config", "t": t, "rc": rc, "mc": mc, "accesses": n});
    out.extend_from_slice(line.to_string().as_bytes()); out.push(b'\n');
  });
  for l in &res.lines { println!("{}", l); }
  for (i, st) in &res.crashes {
    let (t, rc, mc) = cfgs[*i];
    println!("{}", json!({"kind": "crash", "t": t, "rc": rc, "mc": mc, "status": describe_status(*st)}));
  }
  println!("{}", json!({"kind": "summary", "configs": cfgs.len(), "crashes": res.crashes.len(), "truncated": res.truncated}));
}

/// C10 spec -> impl: write/probe sweep driven by the cell map exported from Machine.tla.
pub fn sweep(args: &[String]) {
  let map: Value = serde_json::from_str(&std::fs::read_to_string(arg_value(args, "--map").expect("--map")).unwrap()).unwrap();
  let all_probes = args.iter().any(|a| a == "--all-probes");
  let passes = arg_usize(args, "--passes", 1);
  let map = map.as_array().unwrap();
  let cls: Vec<String> = map.iter().map(|x| x["c"].as_str().unwrap().to_string()).collect();
  let key: Vec<usize> = map.iter().map(|x| ju(&x["k"]) as usize).collect();
  let mut rng = Rng::new(seed_from_env() ^ 0x10);
  let mut core = new_core(0, 2, 0x2000);
  for b in core.memory.rom.iter_mut() { *b = rng.byte(); }
  let rom_image: Vec<u8> = core.memory.rom.to_vec();
  let p = mem_ptr(&mut core);
  // shadow store by key, initialised through the bus
  let mut shadow: std::collections::HashMap<usize, u8> = std::collections::HashMap::new();
  for a in 0..=0xffffu32 { if cls[a as usize] == "store" { let v = rng.byte(); memory_write_byte(p, a as u16, v); shadow.insert(key[a as usize], v); } }
  memory_write_byte(p, 0xffff, 0x15);
  let mut ie: u8 = 0x15;
  let io_snapshot: Vec<u8> = (0..=0xffffu32).map(|a| memory_read_byte(p, a as u16)).collect();
  let boundaries: Vec<u16> = vec![0x0000, 0x3fff, 0x4000, 0x7fff, 0x8000, 0x9fff, 0xa000, 0xbfff, 0xc000, 0xcfff, 0xd000, 0xdfff,
    0xe000, 0xfdff, 0xfe00, 0xfe9f, 0xfea0, 0xfeff, 0xff00, 0xff7f, 0xff80, 0xfffe, 0xffff, 0xff0f, 0xff46, 0xffc6, 0xff44];
  let expect = |a: usize, shadow: &std::collections::HashMap<usize, u8>, ie: u8| -> u8 {
    match cls[a].as_str() { "rom" => rom_image[key[a]], "store" => shadow[&key[a]], "ie" => ie, "zero" => 0, "ioconst" => 0xff, _ => io_snapshot[a] }
  };
  let mut mism = 0u64; let mut probes = 0u64; let mut targets = 0u64;
  for _pass in 0..passes {
    for t in 0..=0xffffu32 {
      let t = t as usize;
      if cls[t] == "io" { continue; }
      let old = expect(t, &shadow, ie);
      let mut v = rng.byte(); if v == old { v = v.wrapping_add(1); }
      memory_write_byte(p, t as u16, v);
      match cls[t].as_str() { "store" => { shadow.insert(key[t], v); }, "ie" => { ie = v & 0x1f; }, _ => {} }
      targets += 1;
      let mut check = |a: usize, probes: &mut u64, mism: &mut u64| {
        let obs = memory_read_byte(p, a as u16);
        *probes += 1;
        let e = expect(a, &shadow, ie);
        let (o, e) = if a == 0xff00 { (obs & 0x3f, e & 0x3f) } else if a == 0xff41 { (obs & 0x7f, e & 0x7f) } else { (obs, e) };
        if o != e { *mism += 1; if *mism <= 40 { println!("{}", json!({"kind": "mismatch", "target": t, "tclass": cls[t], "value": v, "probe": a, "pclass": cls[a], "exp": e, "obs": o})); } }
      };
      if all_probes {
        for a in 0..=0xffffusize { check(a, &mut probes, &mut mism); }
      } else {
        check(t, &mut probes, &mut mism);
        for d in [1usize, 2, 0x7f, 0x80, 0x100, 0x1000, 0x2000, 0x4000, 0x8000].iter() {
          check((t + d) & 0xffff, &mut probes, &mut mism); check(t.wrapping_sub(*d) & 0xffff, &mut probes, &mut mism);
        }
        for b in boundaries.iter() { check(*b as usize, &mut probes, &mut mism); }
        for _ in 0..64 { check(rng.word() as usize, &mut probes, &mut mism); }
      }
      // instruction fetch sees the same bytes as data reads (ROM, work RAM, high RAM)
      if t < 0x8000 || (0xc000..0xe000).contains(&t) || (0xff80..0xffff).contains(&t) {
        let sl = crate::mem::get_executable_memory_slice(t, p as *const crate::mem::MemoryAreas);
        probes += 1;
        if sl.is_empty() || sl[0] != expect(t, &shadow, ie) {
          mism += 1; println!("{}", json!({"kind": "mismatch", "target": t, "tclass": "fetch", "value": v, "probe": t, "pclass": cls[t], "exp": expect(t, &shadow, ie), "obs": if sl.is_empty() { 0x1ff } else { sl[0] as u32 }}));
        }
      }
    }
  }
  println!("{}", json!({"kind": "summary", "targets": targets, "probes": probes, "mismatches": mism}));
}

/// C10 / C12 impl -> spec: random histories of bus writes and reads (storage, every implemented
/// I/O register, controller registers), device time and joypad input, in Trace_Machine format.
pub fn trace(args: &[String]) {
  let n = arg_usize(args, "--events", 5000);
  let outp = arg_value(args, "--out").expect("--out");
  let no_ticks = args.iter().any(|a| a == "--no-ticks");
  let no_joypad = args.iter().any(|a| a == "--no-joypad");
  // C12: only the cartridge's side of the bus (controller registers, ROM, cartridge RAM): what a device register does
  // with a write is not the controller's business
  let cart_only = args.iter().any(|a| a == "--cart-only");
  // C10: which bank a controller shows is C12's business: on cartridges with a controller the history leaves its
  // registers alone (writes into 0x0000-0x7FFF are made on the ROM-only cartridges, where they must change nothing)
  let no_mbc_writes = args.iter().any(|a| a == "--no-mbc-writes");
  let mut rng = Rng::new(seed_from_env() ^ 0x1012);
  let mut out: Vec<u8> = Vec::new();
  let carts: [(u8, u8, u8); 8] = [(0, 0, 0), (0, 0, 2), (1, 2, 3), (3, 1, 1), (2, 0x53, 2), (0x13, 3, 3), (0x11, 2, 0), (0x12, 0x52, 2)];
  let ioregs: [u16; 22] = [0xff00, 0xff01, 0xff02, 0xff04, 0xff05, 0xff06, 0xff07, 0xff0f, 0xff40, 0xff41, 0xff42, 0xff43, 0xff44, 0xff45,
                           0xff46, 0xff47, 0xff48, 0xff49, 0xff4a, 0xff4b, 0xff03, 0xff7f];
  let mut count = 0usize;
  let mut hist = 0u64;
  while count < n {
    let cart = carts[(hist % 8) as usize]; hist += 1;
    // ROM: a few tagged bytes per bank
    let banks = header_from_bytes(&header_bytes(cart.0, cart.1, cart.2)).get_rom_bank_count();
    let mut chunks: Vec<Value> = Vec::new();
    for b in 0..banks { chunks.push(json!([b * 0x4000, [b & 0xff, rng.byte(), rng.byte()]])); chunks.push(json!([b * 0x4000 + 0x3ffd, [rng.byte(), rng.byte(), b & 0xff]])); }
    let sc = json!({"id": hist, "cart": [cart.0, cart.1, cart.2], "romfill": rng.byte(), "rom": chunks,
                    "cpu": {"a":0,"f":0,"b":0,"c":0,"d":0,"e":0,"h":0,"l":0,"sp":0,"pc":0}, "ime": "Disabled"});
    let mut core = crate::cmd_machine::build_core(&sc);
    writeln!(out, "{}", json!({"ev": "init", "id": hist, "cart": sc["cart"], "romfill": sc["romfill"], "rom": sc["rom"], "cpu": sc["cpu"], "ime": "Disabled"})).unwrap();
    let p = mem_ptr(&mut core);
    let len = 100 + rng.below(400) as usize;
    let mut recent: Vec<u16> = Vec::new();
    for _ in 0..len {
      count += 1;
      let k = rng.below(20);
      let addr = |rng: &mut Rng, recent: &Vec<u16>| -> u16 {
        if cart_only {
          return match rng.below(10) {
            0 | 1 | 2 | 3 => *rng.pick(&[0x0000u16, 0x1fff, 0x2000, 0x2100, 0x3fff, 0x4000, 0x5fff, 0x6000, 0x7fff]),
            4 | 5 => rng.word() & 0x7fff,
            6 => *rng.pick(&[0x0000u16, 0x3fff, 0x4000, 0x7fff, 0xa000, 0xa7ff, 0xa800, 0xbfff]),
            _ => 0xa000 + (rng.word() & 0x1fff),
          };
        }
        match rng.below(10) {
          0 | 1 => *rng.pick(&ioregs),
          2 => *rng.pick(&[0x0000u16, 0x1fff, 0x2000, 0x2100, 0x3fff, 0x4000, 0x5fff, 0x6000, 0x7fff]),
          3 if !recent.is_empty() => *rng.pick(recent),
          4 => *rng.pick(&[0x8000u16, 0x9fff, 0xa000, 0xa7ff, 0xa800, 0xbfff, 0xc000, 0xcfff, 0xd000, 0xdfff, 0xe000, 0xfdff, 0xfe00, 0xfe9f, 0xfea0, 0xfeff, 0xff80, 0xfffe, 0xffff, 0xffc6, 0x4000, 0x7fff, 0x3fff]),
          _ => rng.word(),
        }
      };
      if k < 8 {
        let a = addr(&mut rng, &recent); let v = if rng.chance(1, 4) { *rng.pick(&[0u8, 1, 3, 0x0a, 0x1f, 0x20, 0x7f, 0x80, 0xff]) } else { rng.byte() };
        if a == 0xff02 && v & 0x80 != 0 { count -= 1; continue; }   // serial output is C18's business (it writes to this process's stdout)
        if no_mbc_writes && cart.0 != 0 && a < 0x8000 { count -= 1; continue; }
        memory_write_byte(p, a, v); recent.push(a); if recent.len() > 12 { recent.remove(0); }
        writeln!(out, "{}", json!({"ev": "bw", "a": a, "v": v, "o": crate::cmd_machine::project(&mut core)})).unwrap();
      } else if k < 16 {
        let a = addr(&mut rng, &recent);
        let v = memory_read_byte(p, a);
        writeln!(out, "{}", json!({"ev": "br", "a": a, "v": v})).unwrap();
        // the instruction-fetch view of the same address (ROM, work RAM, high RAM)
        if a < 0x8000 || (0xc000..0xe000).contains(&a) || (0xff80..0xffff).contains(&a) {
          let sl = crate::mem::get_executable_memory_slice(a as usize, p as *const crate::mem::MemoryAreas);
          let fv = if sl.is_empty() { 0x1ff } else { sl[0] as u32 };
          writeln!(out, "{}", json!({"ev": "bf", "a": a, "v": fv})).unwrap();
          count += 1;
        }
      } else if k < 18 {
        if no_ticks { count -= 1; continue; }
        let big = rng.chance(1, 5);
        let nn = 4 * (1 + rng.below(if big { 20000 } else { 64 }) as usize);
        core.memory.run_clock_cycles(crate::timing::ClockCycles(nn));
        writeln!(out, "{}", json!({"ev": "tick", "n": nn, "o": crate::cmd_machine::project(&mut core)})).unwrap();
      } else {
        if no_joypad { count -= 1; continue; }
        let b = rng.below(8);
        if rng.chance(2, 3) { core.memory.io.joypad.press_button(crate::cmd_machine::button(b)); writeln!(out, "{}", json!({"ev": "press", "b": b, "o": crate::cmd_machine::project(&mut core)})).unwrap(); }
        else { core.memory.io.joypad.release_button(crate::cmd_machine::button(b)); writeln!(out, "{}", json!({"ev": "release", "b": b, "o": crate::cmd_machine::project(&mut core)})).unwrap(); }
      }
    }
  }
  std::fs::write(&outp, &out).unwrap();
}
