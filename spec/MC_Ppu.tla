------------------------------- MODULE MC_Ppu -------------------------------
(***************************************************************************)
(* Model checking of the reference composition (C15): a raster scan over   *)
(* synthetic scenes (pseudo-random tile data and maps, forty objects       *)
(* clustered so that lines carry more than ten of them, equal-X ties,      *)
(* X = 0 and X >= 168), one state per pixel.  Checked at every pixel:      *)
(* the shade is one of the four shades; the line's objects are at most ten, *)
(* in OAM order, all overlapping the line; with objects disabled or no     *)
(* opaque object pixel the background shows; the winner among overlapping  *)
(* objects has the lowest X then the lowest OAM index; BG-over-OBJ.        *)
(***************************************************************************)
EXTENDS Ppu, TLC

CONSTANTS Scenes     \* set of scene numbers
VARIABLES n, x, y
vars == <<n, x, y>>

PByte(k, salt) == (((k * 73) + ((k \div 7) * 31) + (salt * 101) + ((k \div 64) * 17)) % 251) % 256
SceneN(s) ==
  [vram |-> [k \in 1..8192 |-> PByte(k, s)],
   oam  |-> [k \in 1..160 |-> LET o == (k - 1) \div 4  f == (k - 1) % 4 IN
               CASE f = 0 -> 16 + ((((o * 3) + s) % 24) * ((s % 3) + 1))         \* Y: clustered lines
                 [] f = 1 -> <<0, 8, 8, 9, 50, 50, 100, 167, 168, 12>>[(o % 10) + 1] + (((o \div 10) * s) % 40)
                 [] f = 2 -> PByte(o, s + 5)
                 [] OTHER -> PByte(o, s + 9)],
   lcdc |-> 129 + (2 * ((s * 37) % 64)), scx |-> (s * 29) % 256, scy |-> (s * 53) % 256,
   wx |-> (s * 11) % 200, wy |-> (s * 7) % 150, bgp |-> 228 - s, obp0 |-> 27 + s, obp1 |-> 210 - (3 * s)]
\* constant-level definitions: each scene is built once, not once per state
S1 == SceneN(1)  S2 == SceneN(2)  S3 == SceneN(3)  S4 == SceneN(4)
S5 == SceneN(5)  S6 == SceneN(6)  S7 == SceneN(7)  S8 == SceneN(8)
Sc == CASE n = 1 -> S1 [] n = 2 -> S2 [] n = 3 -> S3 [] n = 4 -> S4 [] n = 5 -> S5 [] n = 6 -> S6 [] n = 7 -> S7 [] OTHER -> S8

\* every line is an initial state (the lines are independent), the scan moves along the line
Init == n \in Scenes /\ y \in 0..143 /\ x = 0
Next == x < 159 /\ x' = x + 1 /\ UNCHANGED <<n, y>>
Spec == Init /\ [][Next]_vars

Objs == LineObjects(Sc, y)
ShadeOK == Pixel(Sc, x, y) \in {255, 170, 85, 0}
SelectionLaw == x # 0 \/
                /\ Len(Objs) <= 10
                /\ \A i \in 1..Len(Objs) : OnLine(Sc, Objs[i], y)
                /\ \A i, j \in 1..Len(Objs) : i < j => Objs[i] < Objs[j]
                \* nothing earlier in OAM that overlaps the line was skipped
                /\ \A m \in 0..39 : (OnLine(Sc, m, y) /\ Bit(Sc.lcdc, 1) = 1 /\ \A i \in 1..Len(Objs) : Objs[i] # m)
                                       => (Len(Objs) = 10 /\ m > Objs[10])
Opaque == {i \in 1..Len(Objs) : ObjColour(Sc, Objs[i], x, y) # 0}
BackgroundLaw == Opaque = {} => Pixel(Sc, x, y) = PalShade(Sc.bgp, BgColour(Sc, x, y))
PriorityLaw == Opaque # {} =>
   \E w \in Opaque :
      /\ \A j \in Opaque : ObjX(Sc, Objs[w]) < ObjX(Sc, Objs[j]) \/ (ObjX(Sc, Objs[w]) = ObjX(Sc, Objs[j]) /\ w <= j)
      /\ Pixel(Sc, x, y) = IF Bit(ObjAttr(Sc, Objs[w]), 7) = 1 /\ BgColour(Sc, x, y) # 0
                           THEN PalShade(Sc.bgp, BgColour(Sc, x, y))
                           ELSE PalShade(IF Bit(ObjAttr(Sc, Objs[w]), 4) = 1 THEN Sc.obp1 ELSE Sc.obp0, ObjColour(Sc, Objs[w], x, y))
\* objects with X = 0 or X >= 168 take part in the selection but never show
OffscreenLaw == \A i \in 1..Len(Objs) : (ObjX(Sc, Objs[i]) = 0 \/ ObjX(Sc, Objs[i]) >= 168) => ObjColour(Sc, Objs[i], x, y) = 0
=============================================================================
