"""Raster scenes: a base PPU scene plus patches applied during blanking (Val_PpuRaster.tla).

A patch is effective from `line` on: the harness writes it through the bus during the HBlank of line - 1
(or during VBlank for line 0).  Each patch carries the complete register set after the writes, plus the
video RAM / OAM bytes it changed.
"""
import gbprog

REGS = ["lcdc", "scx", "scy", "wx", "wy", "bgp", "obp0", "obp1"]


def raster_scene(sid, rng, kind):
    sc = gbprog.scene(sid, rng, rng.choice(["random", "window", "crowded", "tall", "priority", "scroll"]))
    sc["kind"] = "raster-" + kind
    cur = {k: sc[k] for k in REGS}
    if kind == "every-line":
        lines = list(range(0, 144, rng.choice([1, 2, 8])))
    elif kind == "split":
        lines = sorted(rng.sample(range(1, 144), 2))
    else:
        lines = sorted(rng.sample(range(0, 144), rng.randint(1, 8)))
    patches = []
    for y in lines:
        p_vram, p_oam = [], []
        for _ in range(rng.randint(1, 3)):
            what = rng.randrange(12)
            if what == 0: cur["scx"] = rng.randrange(256)
            elif what == 1: cur["scy"] = rng.randrange(256)
            elif what == 2: cur["bgp"] = rng.randrange(256)
            elif what == 3: cur["wx"] = rng.choice([0, 3, 7, 8, 50, 87, 159, 166, 167, 200, rng.randrange(256)])
            elif what == 4: cur["wy"] = rng.choice([0, y, max(0, y - 1), y + 1, 143, 200])
            elif what == 5: cur["lcdc"] = (cur["lcdc"] ^ (1 << rng.choice([1, 2, 3, 4, 5, 6]))) | 0x81
            elif what == 6: cur["obp0"] = rng.randrange(256)
            elif what == 7: cur["obp1"] = rng.randrange(256)
            elif what == 8:      # rewrite tile-map entries
                for _ in range(rng.randint(1, 20)):
                    p_vram.append([rng.randrange(0x1800, 0x2000), rng.randrange(256)])
            elif what == 9:      # rewrite tile data
                for _ in range(rng.randint(1, 20)):
                    p_vram.append([rng.randrange(0, 0x1800), rng.randrange(256)])
            elif what == 10:     # move / change an object
                n = rng.randrange(40)
                p_oam.append([4 * n + rng.randrange(4), rng.choice([y + 16, y + 9, y + 17, rng.randrange(256)]) & 0xFF])
            else:                # sprite multiplexing: the same slot reused further down
                n = rng.randrange(40)
                p_oam += [[4 * n, (y + 16) & 0xFF], [4 * n + 1, rng.randrange(8, 160)]]
        p = dict(cur); p.update(line=y, vram=p_vram, oam=p_oam)
        patches.append(p)
    sc["patches"] = patches
    return sc


def raster_scenes(n, rng, start_id=8500000):
    kinds = ["few", "split", "every-line", "few"]
    return [raster_scene(start_id + i, rng, kinds[i % len(kinds)]) for i in range(n)]


# --------------------------------------------------------------------------------------------------------------
# Whole-machine raster programs: a guest with an HBlank (STAT mode 0) handler that rewrites scroll / palette /
# window registers from tables indexed by LY, and a VBlank handler that moves an object and rewrites a tile-map
# entry; run on the real Core.  The frame the PPU presents is compared by TLC with the composition of the state
# reconstructed from the recorded bus writes (machine_timeline below).

PPU_REG = {0xFF40: "lcdc", 0xFF42: "scy", 0xFF43: "scx", 0xFF47: "bgp", 0xFF48: "obp0", 0xFF49: "obp1", 0xFF4A: "wy", 0xFF4B: "wx"}


def raster_machine_program(sid, rng, variant):
    from gbprog import Asm, scenario, cpu
    base = gbprog.scene(sid, rng, rng.choice(["random", "window", "priority", "scroll", "tall"]))
    lcdc = base["lcdc"] | 0x81
    tabs = rng.sample([0x43, 0x42, 0x47, 0x4B, 0x48, 0x49], rng.randint(1, 3))        # registers driven per line
    chunks = []
    # tables at 0x3000 + 0x100 * k, indexed by LY
    for k, reg in enumerate(tabs):
        if reg == 0x43:   t = [(int(20 * __import__("math").sin(y / 9.0)) + rng.randrange(2)) & 0xFF for y in range(256)]
        elif reg == 0x4B: t = [rng.choice([7, 87, 100, 166, 7 + (y % 80)]) for y in range(256)]
        else:             t = [rng.randrange(256) if y % rng.choice([1, 4, 16]) == 0 else 0 for y in range(256)]
        if reg != 0x43 and reg != 0x4B:
            for y in range(1, 256):
                if t[y] == 0: t[y] = t[y - 1]
        chunks.append((0x3000 + 0x100 * k, t))
    # STAT handler at 0x48: one block, all writes land in the HBlank that raised the request
    h = Asm(0x48)
    h.emit(0xC3); h.word(0x0200)                       # JP 0x0200 (the vector area is small)
    hb = Asm(0x0200)
    hb.emit(0xF5, 0xE5)                                # PUSH AF ; PUSH HL
    hb.emit(0xF0, 0x44, 0x6F)                          # LDH A,(LY) ; LD L,A
    for k, reg in enumerate(tabs):
        hb.emit(0x26, 0x30 + k, 0x7E, 0xE0, reg)       # LD H,tab ; LD A,(HL) ; LDH (reg),A
    hb.emit(0xE1, 0xF1, 0xD9)                          # POP HL ; POP AF ; RETI
    # VBlank handler at 0x40: move object 0, rewrite one map entry, count frames in B
    v = Asm(0x40)
    v.emit(0xC3); v.word(0x0280)
    vb = Asm(0x0280)
    vb.emit(0xF5, 0xE5, 0x04)                          # PUSH AF ; PUSH HL ; INC B
    vb.emit(0x21, 0x00, 0xFE, 0x34, 0x23, 0x34, 0x34)  # LD HL,0xFE00 ; INC (HL) ; INC HL ; INC (HL) ; INC (HL)
    vb.emit(0x21); vb.word(0x9800 + rng.randrange(0x400)); vb.emit(0x78, 0x77)   # LD HL,map ; LD A,B ; LD (HL),A
    vb.emit(0xE1, 0xF1, 0xD9)
    a = Asm(0x150)
    a.emit(0x31, 0xF0, 0xDF)                           # LD SP,0xDFF0
    a.emit(0x3E, 0x08, 0xE0, 0x41)                     # STAT: mode-0 source
    a.emit(0x3E, 0x03, 0xE0, 0xFF)                     # IE = VBlank | STAT
    a.emit(0xAF, 0xE0, 0x0F)                           # IF = 0
    a.emit(0xFB)                                       # EI
    a.label("L")
    if variant == "halt":
        a.emit(0x76)
    else:
        a.emit(0x0C)                                   # INC C
    a.jr(0x18, "L")
    chunks += [(0x100, [0x00, 0xC3, 0x50, 0x01]), (h.org, h.resolve()), (hb.org, hb.resolve()), (v.org, v.resolve()), (vb.org, vb.resolve()),
               (a.org, a.resolve())]
    iw = [(0xFF40, lcdc), (0xFF42, base["scy"]), (0xFF43, base["scx"]), (0xFF47, base["bgp"]), (0xFF48, base["obp0"]), (0xFF49, base["obp1"]),
          (0xFF4A, base["wy"]), (0xFF4B, base["wx"])]
    frames = 2
    steps = int(frames * 17556 / (1 if variant == "halt" else 4) * 1.15) + 400
    sc = scenario(sid, chunks, cpu(pc=0x100, sp=0xFFFE), steps, mode="block", init_writes=iw, cart=(0, 0, 2), romfill=0x00)
    sc["vram"], sc["oam"] = base["vram"], base["oam"]
    sc["dump_frames"] = True
    sc["variant"] = variant
    return sc


def raster_machine_programs(n, rng, start_id=8700000):
    return [raster_machine_program(start_id + i, rng, "halt" if i % 4 == 3 else "busy") for i in range(n)]


def machine_timeline(sc, lines):
    """From a recorded run (parsed trace records of one scenario) reconstruct, for every frame the PPU presented, the
    state at the start of line 0 and the patches (register / VRAM / OAM writes made during blanking) in force from each
    line on.  A write is seen by the video hardware at the LCD position the machine had BEFORE the step that made it
    (devices catch up after the CPU's block).  Returns a list of Val_PpuRaster records; raises ValueError when a write
    landed outside blanking (line-granular semantics do not apply)."""
    regs = {v: 0 for v in PPU_REG.values()}
    vram, oam = list(sc["vram"]), list(sc["oam"])
    q = 144 * 456
    out = []
    # state of the frame being drawn
    cur = None            # {"base": regs at line 0, "vram", "oam", "patches": {line: {...}}}
    pend_line0 = {"regs": None, "vram": [], "oam": []}       # writes made during VBlank: effective from line 0 of the next frame

    def snapshot():
        return dict(regs)

    def effective_line(qpos):
        ly, x = qpos // 456, qpos % 456
        if ly >= 144: return 0, True
        if x >= 268: return (ly + 1, False) if ly + 1 <= 143 else (0, True)
        return None, False

    def note_write(addr, val, qpos):
        nonlocal cur
        isreg = addr in PPU_REG
        isv = 0x8000 <= addr < 0xA000
        iso = 0xFE00 <= addr < 0xFEA0
        if not (isreg or isv or iso): return
        line, nextframe = effective_line(qpos)
        if line is None:
            raise ValueError("write to %#06x at LCD position line %d x %d (not blanking)" % (addr, qpos // 456, qpos % 456))
        if isreg: regs[PPU_REG[addr]] = val
        if isv: vram[addr - 0x8000] = val
        if iso: oam[addr - 0xFE00] = val
        if nextframe or cur is None:
            return          # the next frame starts from the then-current regs / vram / oam
        p = cur["patches"].setdefault(line, {"vram": [], "oam": []})
        if isv: p["vram"].append([addr - 0x8000, val])
        if iso: p["oam"].append([addr - 0xFE00, val])
        p["regs"] = snapshot()

    for r in lines:
        ev = r.get("ev")
        if ev == "bw":
            note_write(r["a"], r["v"], q)
            q = r["o"]["q"]
        elif ev == "step":
            for a, v in r["wr"]:
                note_write(a, v, q)
            q0, q = q, r["o"]["q"]
            # did this step's catch-up start a new frame (wrap from line 153 to line 0)?
            if q < q0:
                cur = {"base": snapshot(), "vram": list(vram), "oam": list(oam), "patches": {}}
        elif ev == "framebuf":
            if cur is not None:
                patches = []
                last = cur["base"]
                for line in sorted(cur["patches"]):
                    p = cur["patches"][line]
                    rr = p.get("regs", last)
                    last = rr
                    patches.append(dict(rr, line=line, vram=p["vram"], oam=p["oam"]))
                rec = dict(cur["base"], id=sc["id"], kind="machine-" + sc.get("variant", ""), vram=cur["vram"], oam=cur["oam"], patches=patches, frame=r["fb"])
                out.append(rec)
            cur = None
    return out
