--------------------------- MODULE Trace_RegEcho ---------------------------
(***************************************************************************)
(* impl -> spec for C10, "readable I/O registers return their defined      *)
(* writable bits": the registers that simply hold what was written (TMA,   *)
(* TAC bits 0-2, LCDC, STAT bits 3-6, SCY, SCX, LYC, BGP, OBP0, OBP1, WY,  *)
(* WX, IE bits 0-4) read back the last value written, whatever device time *)
(* passed and whatever else was written in between.  Validates the bus     *)
(* histories of `gbv bus-trace' recorded WITH device time and joypad       *)
(* input; every other record is skipped, so that what the devices do with  *)
(* the time is not this validator's business.                              *)
(*   bw a v   bus write        br a v   bus read        init   new history *)
(***************************************************************************)
EXTENDS Bits, Sequences, TLC, IOUtils, Json

Recs == ndJsonDeserialize(IOEnv.TRACE)
VARIABLES last, l

EchoRegs == {65286, 65287, 65344, 65345, 65346, 65347, 65349, 65351, 65352, 65353, 65354, 65355, 65535}
Mask(a) == CASE a = 65287 -> 7 [] a = 65345 -> 120 [] a = 65535 -> 31 [] OTHER -> 255
Unknown == [a \in EchoRegs |-> -1]

Init == last = Unknown /\ l = 1
Ev == Recs[l].ev
Step ==
  /\ l <= Len(Recs) /\ l' = l + 1
  /\ CASE Ev = "init" -> last' = Unknown
       [] Ev = "bw" /\ Recs[l].a \in EchoRegs -> last' = [last EXCEPT ![Recs[l].a] = Recs[l].v & Mask(Recs[l].a)]
       [] Ev = "br" /\ Recs[l].a \in EchoRegs ->
            /\ (last[Recs[l].a] # -1 => (Recs[l].v & Mask(Recs[l].a)) = last[Recs[l].a])
            /\ UNCHANGED last
       [] OTHER -> UNCHANGED last
TraceSpec == Init /\ [][Step]_<<last, l>>

Matched == TLCGet("stats").diameter - 1
TraceAccepted ==
  IF Matched = Len(Recs) THEN PrintT(<<"TRACE_OK", Len(Recs)>>)
  ELSE /\ PrintT(<<"TRACE_REJECTED", Matched + 1, ToJson(Recs[Matched + 1])>>)
       /\ FALSE
=============================================================================
