---------------------------- MODULE Val_PpuRaster ----------------------------
(***************************************************************************)
(* Raster effects (an extension of C15 beyond "held constant over a frame").*)
(*                                                                         *)
(* A guest that rewrites LCD registers, video RAM or OAM while the LCD is  *)
(* in horizontal or vertical blanking changes the picture from the next    *)
(* line on: line y of the presented frame is line y of the reference       *)
(* composition (Ppu.tla) of the state the video hardware held when line y  *)
(* began (entry to mode 2 of line y).                                      *)
(*                                                                         *)
(* Each record is a base scene, a list of patches and the frame the real   *)
(* PPU presented.  A patch [line, lcdc, scx, scy, wx, wy, bgp, obp0, obp1, *)
(* vram : <<off, v>>.., oam : <<off, v>>..] was applied by bus writes      *)
(* during the blanking that precedes `line' (HBlank of line - 1, or VBlank *)
(* for line 0); it carries the complete register set after the writes.     *)
(***************************************************************************)
EXTENDS Ppu, TLC, IOUtils, Json

Recs == ndJsonDeserialize(IOEnv.TRACE)
Base(r) == [vram |-> r.vram, oam |-> r.oam, lcdc |-> r.lcdc, scx |-> r.scx, scy |-> r.scy, wx |-> r.wx, wy |-> r.wy,
            bgp |-> r.bgp, obp0 |-> r.obp0, obp1 |-> r.obp1]

RECURSIVE Poke(_, _)
Poke(mem, ws) == IF ws = << >> THEN mem ELSE Poke([mem EXCEPT ![Head(ws)[1] + 1] = Head(ws)[2]], Tail(ws))
Apply(sc, p) == [vram |-> Poke(sc.vram, p.vram), oam |-> Poke(sc.oam, p.oam), lcdc |-> p.lcdc, scx |-> p.scx, scy |-> p.scy,
                 wx |-> p.wx, wy |-> p.wy, bgp |-> p.bgp, obp0 |-> p.obp0, obp1 |-> p.obp1]

\* the lines of the frame, each composed from the state in force when it began; patches are sorted by line
RECURSIVE Lines(_, _, _, _)
Lines(sc, ps, y, acc) ==
  IF y = 144 THEN acc
  ELSE IF ps # << >> /\ Head(ps).line = y THEN Lines(Apply(sc, Head(ps)), Tail(ps), y, acc)
  ELSE LET objs == LineObjects(sc, y) IN Lines(sc, ps, y + 1, Append(acc, [x \in 0..159 |-> PixelWith(sc, x, y, objs)]))

Expected(r) == LET ls == Lines(Base(r), r.patches, 0, << >>) IN [k \in 1..23040 |-> ls[((k - 1) \div 160) + 1][(k - 1) % 160]]
Diff(r) == LET f == Expected(r) IN {k \in 1..23040 : f[k] # r.frame[k]}
Bad == {i \in 1..Len(Recs) : Diff(Recs[i]) # {}}
ASSUME IF Bad = {} THEN PrintT(<<"BATCH_OK", Len(Recs)>>)
       ELSE LET i == CHOOSE i \in Bad : \A j \in Bad : i <= j
                d == Diff(Recs[i])
                k == CHOOSE k \in d : \A j \in d : k <= j
            IN PrintT(<<"BATCH_REJECTED", Cardinality(Bad), ToJson([scene |-> Recs[i].id, pixels |-> Cardinality(d), x |-> (k - 1) % 160, y |-> (k - 1) \div 160,
                        expected |-> Expected(Recs[i])[k], got |-> Recs[i].frame[k]])>>)
=============================================================================
