SPECIFICATION Spec
CONSTANTS
  MaxLen = 7
  ReqVals = {4, 1}
  IeVals = {0, 4, 5}
INVARIANT NeverWhileOff
INVARIANT WakeLaw
PROPERTY EiDelay
PROPERTY EiTakesEffect
PROPERTY DiImmediate
PROPERTY RetiImmediate
PROPERTY Suspended
CHECK_DEADLOCK FALSE
