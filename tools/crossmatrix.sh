#!/bin/sh
# usage: tools/crossmatrix.sh <seed name>...   runs every check against each seeded change (false-alarm matrix)
cd /verif
for seed in "$@"; do
  git -C /repo status --porcelain | grep -q . && { echo "repo dirty"; exit 2; }
  git -C /repo apply /verif/seeded/$seed/patch.diff || continue
  line="$seed:"
  for c in C01 C02 C03 C04 C05 C06 C07 C08 C09 C10 C11 C12 C13 C14 C15 C16 C17 C18 C19 C20; do
    ./check $c > out/cross_${seed}_$c.log 2>&1; rc=$?
    line="$line $c=$rc"
  done
  git -C /repo checkout -- .
  echo "$line" >> out/crossmatrix.txt
done
