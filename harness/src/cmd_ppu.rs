//! C15: renders scenes on the real PPU (registers through the bus, one frame through
//! VideoState::run_clock_cycles in random batches) and records the frame presented at VBlank.
use crate::mem::memory_write_byte;
use crate::timing::ClockCycles;
use crate::util::*;
use crate::world::*;
use serde_json::{json, Value};
use std::io::Write;

pub fn run(args: &[String]) {
  let scenes = read_ndjson(&arg_value(args, "--scenes").expect("--scenes"));
  let outp = arg_value(args, "--out").expect("--out");
  silence_panics();
  let mut rng = Rng::new(seed_from_env() ^ 0x15);
  // groups of GROUP scenes share one core: every scene is loaded during the vertical blanking that follows the
  // previous frame, so that state left behind by one frame (line caches, window counters) would show in the next
  let group = arg_usize(args, "--group", 3);
  let ngroups = (scenes.len() + group - 1) / group;
  let res = run_isolated(ngroups, |g, out| {
    let mut core = plain_core();
    for i in (g * group)..((g + 1) * group).min(scenes.len()) {
      let sc = &scenes[i];
      let p = mem_ptr(&mut core);
      for (k, v) in sc["vram"].as_array().unwrap().iter().enumerate() { core.memory.video_ram[k] = ju(v) as u8; }
      for (k, v) in sc["oam"].as_array().unwrap().iter().enumerate() { core.memory.oam_ram[k] = ju(v) as u8; }
      for (reg, key) in [(0xff40u16, "lcdc"), (0xff42, "scy"), (0xff43, "scx"), (0xff47, "bgp"), (0xff48, "obp0"), (0xff49, "obp1"), (0xff4a, "wy"), (0xff4b, "wx")].iter() {
        memory_write_byte(p, *reg, ju(&sc[*key]) as u8);
      }
      // one whole frame period from the start of VBlank: lines 144..153, then 0..143, then the hand-over
      let mut left = 70224usize;
      let mut vblanks = 0;
      while left > 0 {
        let b = (4 * (1 + rng.below(300) as usize)).min(left);
        let m = &mut core.memory;
        let f = m.io.video.run_clock_cycles(ClockCycles(b), &m.video_ram, &m.oam_ram);
        if f.as_u8() & 1 != 0 { vblanks += 1; }
        left -= b;
      }
      let frame: Vec<u8> = core.memory.io.video.get_visible_buffer().to_vec();
      let mut rec = sc.clone();
      rec["frame"] = json!(frame);
      rec["vblanks"] = json!(vblanks);
      rec["order_in_group"] = json!(i - g * group);
      out.extend_from_slice(rec.to_string().as_bytes()); out.push(b'\n');
    }
  });
  let mut f = std::io::BufWriter::new(std::fs::File::create(&outp).unwrap());
  for l in &res.lines { writeln!(f, "{}", l).unwrap(); }
  for (g, st) in &res.crashes { println!("{}", json!({"kind": "crash", "group": g, "id": scenes[(*g * group).min(scenes.len() - 1)]["id"], "status": describe_status(*st)})); }
  println!("{}", json!({"kind": "summary", "scenes": scenes.len(), "rendered": res.lines.len(), "crashes": res.crashes.len()}));
}
