--------------------------------- MODULE Bus ---------------------------------
(***************************************************************************)
(* The Game Boy memory map as the emulator implements it: a partition of   *)
(* 0x0000..0xFFFF into regions, the storage cell behind every address, and *)
(* byte/word read and write over a sparse store.                           *)
(*                                                                         *)
(* A store is a function from *cell identifiers* to bytes.  A cell id is   *)
(* <<region, index>>; for banked regions the index is the physical offset  *)
(* in the cartridge ROM / RAM.  The I/O page (0xFF00-0xFF7F) is delegated  *)
(* to IoRead/IoWrite supplied by the instantiating module; the modules     *)
(* that do not model devices use the `plain' versions below, which cover   *)
(* IF and treat every other register as unassigned.                        *)
(*                                                                         *)
(* Named deviations of the emulator from DMG hardware (the specification   *)
(* models what the emulator is meant to do):                               *)
(*   Dev_EchoZero   0xE000-0xFDFF reads 0 and ignores writes               *)
(*   Dev_NoRamGate  cartridge RAM is not gated by the RAM-enable register  *)
(***************************************************************************)
EXTENDS Bits, Sequences

Region(a) ==
  CASE a < 16384 -> "rom0"
    [] a < 32768 -> "romx"
    [] a < 40960 -> "vram"
    [] a < 49152 -> "xram"
    [] a < 53248 -> "wram0"
    [] a < 57344 -> "wram1"
    [] a < 65024 -> "echo"
    [] a < 65184 -> "oam"
    [] a < 65280 -> "unused"
    [] a < 65408 -> "io"
    [] a < 65535 -> "hram"
    [] OTHER     -> "ie"

Regions == {"rom0", "romx", "vram", "xram", "wram0", "wram1", "echo", "oam", "unused", "io", "hram", "ie"}
StorageRegions == {"vram", "xram", "wram0", "wram1", "oam", "hram", "ie"}
ConstRegions == {"echo", "unused"}      \* read as 0, ignore writes

(* cart: [romBank |-> n, ramBank |-> n, romBanks |-> count, ramBytes |-> size]  *)
(* The storage cell behind address a under cartridge mapping cart.             *)
Cell(cart, a) ==
  LET r == Region(a) IN
  CASE r = "rom0"  -> <<"rom", a>>
    [] r = "romx"  -> <<"rom", 16384 * cart.romBank + (a % 16384)>>
    [] r = "vram"  -> <<"vram", a % 8192>>
    [] r = "xram"  -> <<"xram", 8192 * cart.ramBank + (a % 8192)>>
    [] r = "wram0" -> <<"wram", a % 4096>>
    [] r = "wram1" -> <<"wram", 4096 + (a % 4096)>>
    [] r = "oam"   -> <<"oam", a % 256>>
    [] r = "hram"  -> <<"hram", a % 128>>
    [] r = "ie"    -> <<"ie", 0>>
    [] r = "io"    -> <<"io", a % 256>>
    [] OTHER       -> <<"none", 0>>

NoCart == [romBank |-> 1, ramBank |-> 0, romBanks |-> 2, ramBytes |-> 0]

Get(store, c) == IF c \in DOMAIN store THEN store[c] ELSE 0
Put(store, c, v) == IF c \in DOMAIN store THEN [store EXCEPT ![c] = v]
                    ELSE [x \in DOMAIN store \cup {c} |-> IF x = c THEN v ELSE store[x]]

(* --- the I/O page without devices: IF only ------------------------------- *)
PlainIoRead(store, a)  == IF a = 65295 THEN (Get(store, <<"io", 15>>) % 32) + 224 ELSE 255
PlainIoWrite(store, a, v) == IF a = 65295 THEN Put(store, <<"io", 15>>, v % 32) ELSE store

(* --- byte access (cartridge ROM is immutable through the bus; bank-register *)
(*     writes are handled by the caller through Cart!MbcWrite)                *)
BusRead(cart, store, a) ==
  LET r == Region(a) IN
  IF r \in ConstRegions THEN 0
  ELSE IF r = "io" THEN PlainIoRead(store, a)
  ELSE Get(store, Cell(cart, a))

BusWrite(cart, store, a, v) ==
  LET r == Region(a) IN
  IF r \in ConstRegions \/ r \in {"rom0", "romx"} THEN store
  ELSE IF r = "io" THEN PlainIoWrite(store, a, v)
  ELSE IF r = "ie" THEN Put(store, <<"ie", 0>>, v % 32)
  ELSE Put(store, Cell(cart, a), v)

RECURSIVE BusWriteAll(_, _, _)
BusWriteAll(cart, store, wr) ==
  IF wr = << >> THEN store
  ELSE BusWriteAll(cart, BusWrite(cart, store, Head(wr)[1], Head(wr)[2]), Tail(wr))

(* --- word access: two byte accesses, low address first, modulo 2^16 --------- *)
BusReadWord(cart, store, a) == BusRead(cart, store, a) + 256 * BusRead(cart, store, W16(a + 1))
WordWrites(a, w) == << <<a, Lo(w)>>, <<W16(a + 1), Hi(w)>> >>

(* --- instruction fetch sees the same bytes as data reads in ROM/WRAM/HRAM ---- *)
Executable(a) == Region(a) \in {"rom0", "romx", "wram0", "wram1", "hram"}
Fetch(cart, store, a) == BusRead(cart, store, a)
=============================================================================
