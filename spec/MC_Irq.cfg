SPECIFICATION Spec
CONSTANTS
  SPs = {49152, 0, 1, 2, 65296, 65297, 8193, 32769, 65535, 65280}
  PCs = {0, 4660, 65534}
PROPERTY Quiet
PROPERTY Wake
PROPERTY MasterOff
PROPERTY Entry
PROPERTY Priority
PROPERTY Cancel
CHECK_DEADLOCK FALSE
