SPECIFICATION Spec
CONSTANTS
  Ops = {0, 1, 8, 9, 24, 32, 34, 39, 49, 54, 58, 118, 128, 143, 150, 190, 193, 197, 198, 201, 205, 217, 232, 233, 241, 245, 248, 249, 251, 243, 16, 255, 202, 196, 208}
  Bytes = {0, 255, 130}
  InitSP = {0, 1, 65535, 49152}
  InitPC = {0, 65534, 256}
  MaxSteps = 2
INVARIANT TypeOK
INVARIANT LengthLaw
INVARIANT CycleLaw
INVARIANT PushLaw
INVARIANT PopLaw
INVARIANT CallLaw
INVARIANT StatusLaw
CHECK_DEADLOCK FALSE
