SPECIFICATION Spec
CONSTANTS
  Batches = {1, 4, 12, 16, 20, 64}
  TacVals = {0, 4, 5, 6, 7, 1}
  ByteVals = {0, 254, 255}
  StartPhases = {0, 8, 15, 1023, 65532}
  MaxSteps = 4
INVARIANT TypeOK
INVARIANT DivLaw
INVARIANT BatchingIndependent
PROPERTY DisabledFrozen
CHECK_DEADLOCK FALSE
