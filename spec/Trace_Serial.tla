----------------------------- MODULE Trace_Serial -----------------------------
(***************************************************************************)
(* impl -> spec for C18: the serial projection of recorded machine traces. *)
(* Only the serial port is constrained: for every emulator step the bytes  *)
(* that appeared on the worker's standard output must be exactly what      *)
(* Serial.tla produces from the step's bus writes to SB (0xFF01) and SC    *)
(* (0xFF02), taken in order from the bus-write log - nothing missing,      *)
(* nothing extra, whatever else the machine did in that step.              *)
(***************************************************************************)
EXTENDS Serial, TLC, IOUtils, Json

Recs == ndJsonDeserialize(IOEnv.TRACE)
VARIABLES sp, l
Init == sp = PowerOn /\ l = 1
IsEvent(e) == l <= Len(Recs) /\ Recs[l].ev = e /\ l' = l + 1

\* fold the step's writes through the serial port
RECURSIVE Fold(_, _, _, _)
Fold(s, wr, i, out) ==
  IF i > Len(wr) THEN [sp |-> s, out |-> out]
  ELSE LET a == wr[i][1]  v == wr[i][2] IN
       IF a = 65281 THEN Fold(WriteSB(s, v).sp, wr, i + 1, out)
       ELSE IF a = 65282 THEN (LET r == WriteSC(s, v) IN Fold(r.sp, wr, i + 1, out \o r.out))
       ELSE Fold(s, wr, i + 1, out)

NewHistory == IsEvent("init") /\ sp' = PowerOn
DriverWrite == IsEvent("bw") /\ sp' = Fold(sp, << <<Recs[l].a, Recs[l].v>> >>, 1, << >>).sp
Passive == l <= Len(Recs) /\ Recs[l].ev \in {"press", "release", "br", "bf", "tick", "frame"} /\ l' = l + 1 /\ UNCHANGED sp
Step == IsEvent("step") /\ LET r == Fold(sp, Recs[l].wr, 1, << >>) IN sp' = r.sp /\ r.out = Recs[l].out
Next == NewHistory \/ DriverWrite \/ Passive \/ Step
TraceSpec == Init /\ [][Next]_<<sp, l>>

Matched == TLCGet("stats").diameter - 1
TraceAccepted ==
  IF Matched = Len(Recs) THEN PrintT(<<"TRACE_OK", Len(Recs)>>)
  ELSE /\ PrintT(<<"TRACE_REJECTED", Matched + 1, ToJson(Recs[Matched + 1])>>)
       /\ FALSE
=============================================================================
