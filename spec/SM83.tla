--------------------------------- MODULE SM83 ---------------------------------
(***************************************************************************)
(* The SM83 instruction set: decode table and single-instruction step.     *)
(*                                                                         *)
(* Decoding follows the octal structure of the encoding                    *)
(*    op = x*64 + y*8 + z,  p = y div 2,  q = y mod 2                      *)
(* rather than a 256-entry list, so it is independent of the match table   *)
(* in src/decoder/mod.rs.                                                  *)
(*                                                                         *)
(* CPU state  s = [a,f,b,c,d,e,h,l,sp,pc]                                  *)
(* Exec(s, RD) executes the instruction at s.pc, reading memory only       *)
(* through the operator RD(addr), and returns                              *)
(*    [s |-> s', st |-> status, cyc |-> M-cycles, wr |-> <<<<addr,val>>..>>]*)
(* with bus writes in program order; the caller applies them to whatever   *)
(* memory model it uses (plain RAM in the instruction-level checks, the    *)
(* full bus in Machine).                                                   *)
(***************************************************************************)
EXTENDS SM83Alu, Sequences

\* status codes reported by a step (the STATUS_ constants of src/cpu.rs)
StNormal == 0
StStop   == 1
StHalt   == 2
StDI     == 3
StEI     == 4
StRETI   == 5

Undefined == {211, 219, 221, 227, 228, 235, 236, 237, 244, 252, 253}
   \* D3 DB DD E3 E4 EB EC ED F4 FC FD

(* ------------------------------------------------------------------ *)
(* Register access                                                     *)
(* r8 index (encoding order): 0 B, 1 C, 2 D, 3 E, 4 H, 5 L, 6 (HL), 7 A *)
(* ------------------------------------------------------------------ *)
HL(s) == s.h * 256 + s.l
BC(s) == s.b * 256 + s.c
DE(s) == s.d * 256 + s.e
AF(s) == s.a * 256 + s.f

GetR(s, r) ==
  CASE r = 0 -> s.b [] r = 1 -> s.c [] r = 2 -> s.d [] r = 3 -> s.e
    [] r = 4 -> s.h [] r = 5 -> s.l [] r = 7 -> s.a

SetR(s, r, v) ==
  CASE r = 0 -> [s EXCEPT !.b = v] [] r = 1 -> [s EXCEPT !.c = v]
    [] r = 2 -> [s EXCEPT !.d = v] [] r = 3 -> [s EXCEPT !.e = v]
    [] r = 4 -> [s EXCEPT !.h = v] [] r = 5 -> [s EXCEPT !.l = v]
    [] r = 7 -> [s EXCEPT !.a = v]

\* rp index: 0 BC, 1 DE, 2 HL, 3 SP
GetRP(s, p) == CASE p = 0 -> BC(s) [] p = 1 -> DE(s) [] p = 2 -> HL(s) [] p = 3 -> s.sp
SetRP(s, p, w) ==
  CASE p = 0 -> [s EXCEPT !.b = Hi(w), !.c = Lo(w)]
    [] p = 1 -> [s EXCEPT !.d = Hi(w), !.e = Lo(w)]
    [] p = 2 -> [s EXCEPT !.h = Hi(w), !.l = Lo(w)]
    [] p = 3 -> [s EXCEPT !.sp = w]
\* rp2 index (PUSH/POP): 0 BC, 1 DE, 2 HL, 3 AF
GetRP2(s, p) == IF p = 3 THEN AF(s) ELSE GetRP(s, p)
SetRP2(s, p, w) == IF p = 3 THEN [s EXCEPT !.a = Hi(w), !.f = MaskF(Lo(w))] ELSE SetRP(s, p, w)

\* cc index: 0 NZ, 1 Z, 2 NC, 3 C
Cond(s, cc) == CASE cc = 0 -> Zf(s.f) = 0 [] cc = 1 -> Zf(s.f) = 1
                 [] cc = 2 -> Cf(s.f) = 0 [] cc = 3 -> Cf(s.f) = 1

(* ------------------------------------------------------------------ *)
(* Decode table: length, base and taken M-cycles, block end, defined   *)
(* ------------------------------------------------------------------ *)
\* Does the instruction with first byte op (and CB second byte cb) redirect
\* control or change the halt / interrupt-enable state?
IsBlockEnd(op) ==
  LET x == op \div 64  y == (op \div 8) % 8  z == op % 8  q == y % 2  p == y \div 2 IN
  \/ op = 16 \/ op = 118                         \* STOP, HALT
  \/ (x = 0 /\ z = 0 /\ y >= 3)                  \* JR, JR cc
  \/ (x = 3 /\ z = 0 /\ y < 4)                   \* RET cc
  \/ (x = 3 /\ z = 1 /\ q = 1 /\ p \in 0..2)     \* RET, RETI, JP HL
  \/ (x = 3 /\ z = 2 /\ y < 4)                   \* JP cc
  \/ op = 195 \/ op = 243 \/ op = 251            \* JP, DI, EI
  \/ (x = 3 /\ z = 4 /\ y < 4) \/ op = 205       \* CALL cc, CALL
  \/ (x = 3 /\ z = 7)                            \* RST

ILen(op) ==
  LET x == op \div 64  y == (op \div 8) % 8  z == op % 8  q == y % 2 IN
  CASE op = 203 -> 2
    [] op = 16 -> 2
    [] x = 0 /\ z = 0 /\ y = 1 -> 3
    [] x = 0 /\ z = 0 /\ y >= 3 -> 2
    [] x = 0 /\ z = 1 /\ q = 0 -> 3
    [] x = 0 /\ z = 6 -> 2
    [] x = 3 /\ z = 0 /\ y >= 4 -> 2
    [] x = 3 /\ z = 2 /\ y \in {0,1,2,3,5,7} -> 3
    [] x = 3 /\ z = 3 /\ y = 0 -> 3
    [] x = 3 /\ z = 4 /\ y < 4 -> 3
    [] op = 205 -> 3
    [] x = 3 /\ z = 6 -> 2
    [] OTHER -> 1

\* M-cycles when a conditional is not taken (or for unconditional forms)
Cyc(op, cb) ==
  LET x == op \div 64  y == (op \div 8) % 8  z == op % 8  q == y % 2  p == y \div 2 IN
  CASE op = 203 ->
         (LET cx == cb \div 64  cz == cb % 8 IN
          IF cz # 6 THEN 2 ELSE IF cx = 1 THEN 3 ELSE 4)
    [] x = 0 ->
         (CASE z = 0 -> (CASE y = 0 -> 1 [] y = 1 -> 5 [] y = 2 -> 1 [] y = 3 -> 3 [] OTHER -> 2)
            [] z = 1 -> (IF q = 0 THEN 3 ELSE 2)
            [] z = 2 -> 2
            [] z = 3 -> 2
            [] z \in {4, 5} -> (IF y = 6 THEN 3 ELSE 1)
            [] z = 6 -> (IF y = 6 THEN 3 ELSE 2)
            [] z = 7 -> 1)
    [] x = 1 -> (IF op = 118 THEN 1 ELSE IF y = 6 \/ z = 6 THEN 2 ELSE 1)
    [] x = 2 -> (IF z = 6 THEN 2 ELSE 1)
    [] x = 3 ->
         (CASE z = 0 -> (CASE y < 4 -> 2 [] y = 4 -> 3 [] y = 5 -> 4 [] y = 6 -> 3 [] y = 7 -> 3)
            [] z = 1 -> (IF q = 0 THEN 3 ELSE CASE p = 0 -> 4 [] p = 1 -> 4 [] p = 2 -> 1 [] p = 3 -> 2)
            [] z = 2 -> (CASE y < 4 -> 3 [] y \in {4, 6} -> 2 [] y \in {5, 7} -> 4)
            [] z = 3 -> (IF y = 0 THEN 4 ELSE 1)
            [] z = 4 -> 3
            [] z = 5 -> (IF q = 0 THEN 4 ELSE 6)
            [] z = 6 -> 2
            [] z = 7 -> 4)

\* M-cycles when a conditional JR/JP/CALL/RET is taken
CycTaken(op, cb) ==
  LET x == op \div 64  y == (op \div 8) % 8  z == op % 8 IN
  CASE x = 0 /\ z = 0 /\ y >= 4 -> 3
    [] x = 3 /\ z = 0 /\ y < 4 -> 5
    [] x = 3 /\ z = 2 /\ y < 4 -> 4
    [] x = 3 /\ z = 4 /\ y < 4 -> 6
    [] OTHER -> Cyc(op, cb)

DecodeInfo(op, cb) ==
  [defined  |-> op \notin Undefined,
   len      |-> ILen(op),
   cyc      |-> IF op \in Undefined THEN 0 ELSE Cyc(op, cb),
   cycTaken |-> IF op \in Undefined THEN 0 ELSE CycTaken(op, cb),
   blockEnd |-> IsBlockEnd(op)]

(* ------------------------------------------------------------------ *)
(* Single instruction step                                             *)
(* ------------------------------------------------------------------ *)
Out(s, st, cyc, wr) == [s |-> s, st |-> st, cyc |-> cyc, wr |-> wr]
Adv(s, n) == [s EXCEPT !.pc = W16(s.pc + n)]

\* PUSH order: high byte at SP-1, then low byte at SP-2
PushWr(sp, w) == << <<W16(sp - 1), Hi(w)>>, <<W16(sp - 2), Lo(w)>> >>

Exec(s, RD(_)) ==
  LET op == RD(s.pc)
      n8 == RD(W16(s.pc + 1))
      n16 == RD(W16(s.pc + 1)) + 256 * RD(W16(s.pc + 2))
      x == op \div 64  y == (op \div 8) % 8  z == op % 8  q == y % 2  p == y \div 2
      hl == HL(s)
      Pop16 == RD(s.sp) + 256 * RD(W16(s.sp + 1))
      \* read / write an r8 operand, (HL) included
      Rd8(r) == IF r = 6 THEN RD(hl) ELSE GetR(s, r)
      \* result of writing v to r8 operand r on state t, advancing by n with c cycles
      Wr8(t, r, v, n, c) == IF r = 6 THEN Out(Adv(t, n), StNormal, c, << <<hl, v>> >>)
                            ELSE Out(Adv(SetR(t, r, v), n), StNormal, c, << >>)
      Jump(target, c) == Out([s EXCEPT !.pc = target], StNormal, c, << >>)
  IN
  CASE x = 0 ->
    (CASE z = 0 ->
        (CASE y = 0 -> Out(Adv(s, 1), StNormal, 1, << >>)
           [] y = 1 -> Out(Adv(s, 3), StNormal, 5, << <<n16, Lo(s.sp)>>, <<W16(n16 + 1), Hi(s.sp)>> >>)
           [] y = 2 -> Out(Adv(s, 2), StStop, 1, << >>)
           [] y = 3 -> Jump(W16(s.pc + 2 + Sx8(n8)), 3)
           [] OTHER -> IF Cond(s, y - 4) THEN Jump(W16(s.pc + 2 + Sx8(n8)), 3)
                       ELSE Out(Adv(s, 2), StNormal, 2, << >>))
       [] z = 1 ->
        (IF q = 0 THEN Out(Adv(SetRP(s, p, n16), 3), StNormal, 3, << >>)
         ELSE LET v == AddHL(hl, GetRP(s, p), s.f)
              IN Out(Adv([SetRP(s, 2, v.r) EXCEPT !.f = v.f], 1), StNormal, 2, << >>))
       [] z = 2 ->
        (LET addr == CASE p = 0 -> BC(s) [] p = 1 -> DE(s) [] OTHER -> hl
             s1 == CASE p = 2 -> SetRP(s, 2, Inc16(hl)) [] p = 3 -> SetRP(s, 2, Dec16(hl)) [] OTHER -> s
         IN IF q = 0 THEN Out(Adv(s1, 1), StNormal, 2, << <<addr, s.a>> >>)
            ELSE Out(Adv([s1 EXCEPT !.a = RD(addr)], 1), StNormal, 2, << >>))
       [] z = 3 ->
        (IF q = 0 THEN Out(Adv(SetRP(s, p, Inc16(GetRP(s, p))), 1), StNormal, 2, << >>)
         ELSE Out(Adv(SetRP(s, p, Dec16(GetRP(s, p))), 1), StNormal, 2, << >>))
       [] z = 4 -> (LET v == Inc8(Rd8(y), s.f) IN Wr8([s EXCEPT !.f = v.f], y, v.r, 1, IF y = 6 THEN 3 ELSE 1))
       [] z = 5 -> (LET v == Dec8(Rd8(y), s.f) IN Wr8([s EXCEPT !.f = v.f], y, v.r, 1, IF y = 6 THEN 3 ELSE 1))
       [] z = 6 -> Wr8(s, y, n8, 2, IF y = 6 THEN 3 ELSE 2)
       [] z = 7 -> (LET v == AccOp(y, s.a, s.f) IN Out(Adv([s EXCEPT !.a = v.r, !.f = v.f], 1), StNormal, 1, << >>)))
    [] x = 1 ->
        (IF op = 118 THEN Out(Adv(s, 1), StHalt, 1, << >>)
         ELSE Wr8(s, y, Rd8(z), 1, IF y = 6 \/ z = 6 THEN 2 ELSE 1))
    [] x = 2 ->
        (LET v == AluBin(y, s.a, Rd8(z), s.f)
         IN Out(Adv([s EXCEPT !.a = v.r, !.f = v.f], 1), StNormal, IF z = 6 THEN 2 ELSE 1, << >>))
    [] x = 3 ->
    (CASE z = 0 ->
        (CASE y < 4 -> (IF Cond(s, y) THEN Out([s EXCEPT !.pc = Pop16, !.sp = W16(s.sp + 2)], StNormal, 5, << >>)
                        ELSE Out(Adv(s, 1), StNormal, 2, << >>))
           [] y = 4 -> Out(Adv(s, 2), StNormal, 3, << <<65280 + n8, s.a>> >>)
           [] y = 5 -> (LET v == AddSPe(s.sp, n8, s.f) IN Out(Adv([s EXCEPT !.sp = v.r, !.f = v.f], 2), StNormal, 4, << >>))
           [] y = 6 -> Out(Adv([s EXCEPT !.a = RD(65280 + n8)], 2), StNormal, 3, << >>)
           [] y = 7 -> (LET v == AddSPe(s.sp, n8, s.f) IN Out(Adv([SetRP(s, 2, v.r) EXCEPT !.f = v.f], 2), StNormal, 3, << >>)))
       [] z = 1 ->
        (IF q = 0 THEN Out(Adv([SetRP2(s, p, Pop16) EXCEPT !.sp = W16(s.sp + 2)], 1), StNormal, 3, << >>)
         ELSE CASE p = 0 -> Out([s EXCEPT !.pc = Pop16, !.sp = W16(s.sp + 2)], StNormal, 4, << >>)
                [] p = 1 -> Out([s EXCEPT !.pc = Pop16, !.sp = W16(s.sp + 2)], StRETI, 4, << >>)
                [] p = 2 -> Jump(hl, 1)
                [] p = 3 -> Out(Adv([s EXCEPT !.sp = hl], 1), StNormal, 2, << >>))
       [] z = 2 ->
        (CASE y < 4 -> (IF Cond(s, y) THEN Jump(n16, 4) ELSE Out(Adv(s, 3), StNormal, 3, << >>))
           [] y = 4 -> Out(Adv(s, 1), StNormal, 2, << <<65280 + s.c, s.a>> >>)
           [] y = 5 -> Out(Adv(s, 3), StNormal, 4, << <<n16, s.a>> >>)
           [] y = 6 -> Out(Adv([s EXCEPT !.a = RD(65280 + s.c)], 1), StNormal, 2, << >>)
           [] y = 7 -> Out(Adv([s EXCEPT !.a = RD(n16)], 3), StNormal, 4, << >>))
       [] z = 3 ->
        (CASE y = 0 -> Jump(n16, 4)
           [] y = 1 ->
             (LET cx == n8 \div 64  cy == (n8 \div 8) % 8  cz == n8 % 8
                  a0 == Rd8(cz)
                  v == CASE cx = 0 -> RotCB(cy, a0, s.f)
                         [] cx = 1 -> BitTest(cy, a0, s.f)
                         [] cx = 2 -> BitRes(cy, a0, s.f)
                         [] cx = 3 -> BitSet(cy, a0, s.f)
              IN IF cx = 1 THEN Out(Adv([s EXCEPT !.f = v.f], 2), StNormal, IF cz = 6 THEN 3 ELSE 2, << >>)
                 ELSE Wr8([s EXCEPT !.f = v.f], cz, v.r, 2, IF cz = 6 THEN 4 ELSE 2))
           [] y = 6 -> Out(Adv(s, 1), StDI, 1, << >>)
           [] y = 7 -> Out(Adv(s, 1), StEI, 1, << >>))
       [] z = 4 ->
        (IF Cond(s, y) THEN Out([s EXCEPT !.pc = n16, !.sp = W16(s.sp - 2)], StNormal, 6, PushWr(s.sp, W16(s.pc + 3)))
         ELSE Out(Adv(s, 3), StNormal, 3, << >>))
       [] z = 5 ->
        (IF q = 0 THEN Out(Adv([s EXCEPT !.sp = W16(s.sp - 2)], 1), StNormal, 4, PushWr(s.sp, GetRP2(s, p)))
         ELSE Out([s EXCEPT !.pc = n16, !.sp = W16(s.sp - 2)], StNormal, 6, PushWr(s.sp, W16(s.pc + 3))))
       [] z = 6 ->
        (LET v == AluBin(y, s.a, n8, s.f)
         IN Out(Adv([s EXCEPT !.a = v.r, !.f = v.f], 2), StNormal, 2, << >>))
       [] z = 7 -> Out([s EXCEPT !.pc = y * 8, !.sp = W16(s.sp - 2)], StNormal, 4, PushWr(s.sp, W16(s.pc + 1))))

\* apply an ordered write list to a plain-RAM memory function (footprint-limited)
RECURSIVE ApplyWr(_, _)
ApplyWr(mem, wr) ==
  IF wr = << >> THEN mem
  ELSE LET w == Head(wr)
       IN ApplyWr(IF w[1] \in DOMAIN mem THEN [mem EXCEPT ![w[1]] = w[2]] ELSE mem, Tail(wr))
=============================================================================
