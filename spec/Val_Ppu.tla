------------------------------- MODULE Val_Ppu -------------------------------
(***************************************************************************)
(* impl -> spec for C15: each record is a scene and the frame the real PPU *)
(* presented at VBlank; the frame must equal Ppu!Frame(scene) pixel by     *)
(* pixel.  Prints the first differing pixel of the first differing scene.  *)
(***************************************************************************)
EXTENDS Ppu, TLC, IOUtils, Json

Recs == ndJsonDeserialize(IOEnv.TRACE)
SceneOf(r) == [vram |-> r.vram, oam |-> r.oam, lcdc |-> r.lcdc, scx |-> r.scx, scy |-> r.scy, wx |-> r.wx, wy |-> r.wy,
               bgp |-> r.bgp, obp0 |-> r.obp0, obp1 |-> r.obp1]
Diff(r) == LET f == Frame(SceneOf(r)) IN {k \in 1..23040 : f[k] # r.frame[k]}
Bad == {i \in 1..Len(Recs) : Diff(Recs[i]) # {}}
ASSUME IF Bad = {} THEN PrintT(<<"BATCH_OK", Len(Recs)>>)
       ELSE LET i == CHOOSE i \in Bad : \A j \in Bad : i <= j
                d == Diff(Recs[i])
                k == CHOOSE k \in d : \A j \in d : k <= j
            IN PrintT(<<"BATCH_REJECTED", Cardinality(Bad), ToJson([scene |-> Recs[i].id, pixels |-> Cardinality(d), x |-> (k - 1) % 160, y |-> (k - 1) \div 160,
                        expected |-> Frame(SceneOf(Recs[i]))[k], got |-> Recs[i].frame[k]])>>)
=============================================================================
