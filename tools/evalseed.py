#!/usr/bin/env python3
"""Evaluate a seeded change delivered by a sub-agent.

  tools/evalseed.py <seed dir> [--checks C01,C02] [--skip-confirm]

1. confirms the seed in a scratch worktree of /repo (outside /repo and /verif): the demonstration passes
   on the unmodified tree, the change builds (with and without the jit feature), the 98 pinned tests still
   pass with it, and the demonstration fails with it;
2. applies the change to /repo, runs the given checks (default: the seed's own property), undoes it;
3. copies the seed to /verif/seeded/<property>-<seed>/ with meta.json extended by what was run and found.
"""
import json, os, re, shutil, subprocess, sys, time

V = os.path.dirname(os.path.dirname(os.path.abspath(__file__)))


def sh(cmd, cwd=None, timeout=3600):
    p = subprocess.run(cmd, cwd=cwd, shell=isinstance(cmd, str), stdout=subprocess.PIPE, stderr=subprocess.STDOUT, text=True, timeout=timeout, errors="replace")
    return p.returncode, p.stdout


def passed_count(out):
    m = re.findall(r"test result: \w+\. (\d+) passed; (\d+) failed", out)
    return (sum(int(a) for a, b in m), sum(int(b) for a, b in m)) if m else (0, -1)


def main():
    sd = os.path.abspath(sys.argv[1])
    args = sys.argv[2:]
    meta = json.load(open(os.path.join(sd, "meta.json")))
    prop, seed = meta["property"], meta["seed"]
    checks = [prop]
    for i, a in enumerate(args):
        if a == "--checks":
            checks = args[i + 1].split(",")
    patch, demo = os.path.join(sd, "patch.diff"), os.path.join(sd, "demo.diff")
    report = {"confirmed": None, "steps": []}
    if "--skip-confirm" not in args:
        wt = "/tmp/ev_%s%s" % (prop, seed)
        sh("git -C /repo worktree remove --force %s" % wt)
        rc, o = sh("git -C /repo worktree add -q --detach %s HEAD" % wt)
        try:
            demo_cmd = meta.get("demo_cmd", "cargo test --offline")
            demo_cmd = re.split(r"\s+\(|;", demo_cmd)[0].strip()      # some agents appended remarks to the command
            rc, o = sh("git apply %s" % demo, cwd=wt)
            report["steps"].append({"apply demo on clean tree": rc})
            rc1, o1 = sh(demo_cmd, cwd=wt)
            p1 = passed_count(o1)
            report["steps"].append({"demo on clean tree": {"rc": rc1, "passed_failed": p1}})
            rc, o = sh("git apply %s" % patch, cwd=wt)
            report["steps"].append({"apply patch": rc})
            rcb, ob = sh("cargo build --offline 2>&1 | tail -2 && cargo build --offline --features jit 2>&1 | tail -2", cwd=wt)
            builds = ob.count("Finished") == 2
            rc2, o2 = sh(demo_cmd, cwd=wt)
            p2 = passed_count(o2)
            report["steps"].append({"demo with patch": {"rc": rc2, "passed_failed": p2}})
            # the pinned suite with the patch but without the demo
            sh("git apply -R %s" % demo, cwd=wt)
            rc3, o3 = sh("cargo test --offline", cwd=wt)
            p3 = passed_count(o3)
            report["steps"].append({"pinned suite with patch": {"rc": rc3, "passed_failed": p3, "builds": builds}})
            # (a demonstration that aborts the test process leaves no "test result" line: a non-zero exit is the failure)
            report["confirmed"] = bool(rc1 == 0 and p1[1] == 0 and rc2 != 0 and rc3 == 0 and p3 == (98, 0) and builds)
        finally:
            sh("git -C /repo worktree remove --force %s" % wt)
            shutil.rmtree(wt, ignore_errors=True)
    # run the checks against the change in /repo
    results = {}
    if "--no-checks" in args:
        checks = []                 # confirmation only: /repo is not touched (several of these may run side by side)
    else:
        rc, o = sh("git -C /repo status --porcelain")
        if o.strip():
            print("repo not clean"); sys.exit(2)
        rc, o = sh("git -C /repo apply %s" % patch)
        if rc != 0:
            print("patch does not apply to /repo:", o); sys.exit(2)
    try:
        for c in checks:
            t0 = time.time()
            rc, o = sh("./check %s" % c, cwd=V, timeout=7200)
            viol = [l for l in o.splitlines() if l.startswith("VIOLATION")]
            results[c] = {"exit": rc, "violations": len(viol), "wall_s": round(time.time() - t0, 1),
                          "first": viol[0] if viol else "", "tail": o.splitlines()[-2:]}
    finally:
        if "--no-checks" not in args:
            sh("git -C /repo checkout -- .")
    report["checks"] = results
    report["detected_by_own_check"] = results.get(prop, {}).get("exit") == 1
    dst = os.path.join(V, "seeded", "%s-%s" % (prop, seed))
    os.makedirs(dst, exist_ok=True)
    for f in ("patch.diff", "demo.diff"):
        shutil.copy(os.path.join(sd, f), os.path.join(dst, f))
    prev = {}
    if os.path.exists(os.path.join(dst, "meta.json")):
        prev = json.load(open(os.path.join(dst, "meta.json"))).get("evaluation", {})
    if report["confirmed"] is None and prev.get("confirmed") is not None:      # --skip-confirm keeps the earlier confirmation
        report["confirmed"], report["steps"] = prev["confirmed"], prev.get("steps", [])
    if not checks and prev.get("checks"):                                        # --no-checks keeps the earlier check results
        report["checks"], report["detected_by_own_check"] = prev["checks"], prev.get("detected_by_own_check")
    meta["evaluation"] = report
    json.dump(meta, open(os.path.join(dst, "meta.json"), "w"), indent=1)
    print(json.dumps({"seed": "%s-%s" % (prop, seed), "confirmed": report["confirmed"],
                      "checks": {c: (r["exit"], r["violations"], r["wall_s"]) for c, r in results.items()}}))


if __name__ == "__main__":
    main()
