#!/usr/bin/env python3
"""Writes /verif/MANIFEST.json from the table below (one source of truth)."""
import json, os, subprocess
V = os.path.dirname(os.path.dirname(os.path.abspath(__file__)))

CHECKS = {
 # id: (technique, level text, level note, design ref)
 "C17": ("TLC model checking of MC_Joypad + complete transition relation exported by TLC (Gen_Joypad) replayed on the real Joypad and through the bus/IF + recorded random histories validated by TLC (Trace_Joypad)",
         "The joypad is a 2^11-state machine: TLC explores every interleaving on the model and the complete transition relation (40 960 transitions) is executed on the code, so the binding is exhaustive, not sampled.",
         "Trusted: TLC, the harness field mapping (cmd_joypad.rs), the verif_pending hook. Buttons are injected at the Joypad API (the graphics shell is out of scope).",
         "DESIGN.md 5/C17"),
}

NOT_APPLICABLE = {
}

def main():
    hooks = subprocess.run(["git", "-C", "/repo", "log", "--format=%h %s"], capture_output=True, text=True).stdout.splitlines()
    hook_commits = [l.split()[0] for l in hooks if l.split(" ", 1)[1].startswith("verif hooks")]
    props = [json.loads(l)["id"] for l in open(os.path.join(V, "properties.jsonl"))]
    checks = []
    for pid in props:
        if pid not in CHECKS:
            continue
        tech, text, note, ref = CHECKS[pid]
        checks.append({
            "property_id": pid,
            "quick_cmd": "./check %s --tier quick" % pid,
            "thorough_cmd": "./check %s --tier thorough" % pid,
            "evidence_file": "/verif/evidence/%s.json" % pid,
            "replay_cmd_template": "./check %s --replay {path}" % pid,
            "engine": "tla-conformance",
            "level_claimed": {"category": "model_checking", "text": text, "design_ref": ref},
            "level_note": note,
            "technique": tech,
        })
    na = [{"property_id": p, "reason": NOT_APPLICABLE.get(p, "check not built yet in this round; see DESIGN.md section 10")}
          for p in props if p not in CHECKS]
    man = {
        "version": 1,
        "setup_cmd": "./setup.sh",
        "hooks": {
            "guard": "gb_dynarec_verif",
            "enable": "RUSTFLAGS --cfg gb_dynarec_verif (set in /verif/harness/.cargo/config.toml; the harness includes /repo/src/*.rs by #[path])",
            "baseline_off_cmd": "cd /repo && cargo test --offline --no-fail-fast",
            "source_commits": hook_commits,
            "add_only": True,
        },
        "engines": [{"name": "tla-conformance", "path": "/verif/check",
                     "serves_properties": [c["property_id"] for c in checks],
                     "kind_free_text": "explicit TLA+ specification (/verif/spec) checked by TLC; bound to the code by TLC-generated cases replayed through /verif/harness (Rust, includes /repo/src by path) and by recorded traces validated by TLC trace specifications"}],
        "checks": checks,
        "not_applicable": na,
        "notes": "Exit codes: 0 held, 1 VIOLATION (with replay file), 2 tool failure. Known findings in /verif/known_findings.json.",
    }
    with open(os.path.join(V, "MANIFEST.json"), "w") as f:
        json.dump(man, f, indent=1)
    print("MANIFEST.json: %d checks, %d not_applicable" % (len(checks), len(na)))

if __name__ == "__main__":
    main()
