SPECIFICATION Spec
CONSTANTS
  MaxSteps = 150
  MaxEvents = 5
  Buttons = {0, 1, 4}
INVARIANT PendingLaw
INVARIANT TimeLaw
INVARIANT SampledLaw
INVARIANT HaltLaw
INVARIANT StackLaw
INVARIANT HandlerLaw
INVARIANT PcLaw
CHECK_DEADLOCK FALSE
